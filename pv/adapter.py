"""python-pest's loaded rule objects -> the denotation AST of pv.ref.metafront (C10 structure comparison)."""

from __future__ import annotations

from pv.ref.metafront import flat

MOD = {0: "", 2: "_", 4: "@", 8: "$", 16: "!"}


def conv(e):  # noqa: PLR0911, PLR0912
    from pest.grammar import expressions as X
    from pest.grammar.expressions.group import Group
    from pest.grammar.rule import BuiltInRule

    tag = getattr(e, "tag", None)

    def w(node):
        return ("tag", tag, node) if tag else node

    if isinstance(e, BuiltInRule):
        n = e.name
        return {"ANY": ("any",), "SOI": ("soi",), "EOI": ("eoi",), "NEWLINE": ("newline",)}.get(n, ("builtin", n))
    if isinstance(e, X.String):
        return w(("str", e.value))
    if isinstance(e, X.CIString):
        return w(("ci", e.value))
    if isinstance(e, X.Range):
        return w(("range", e.start, e.stop))
    if isinstance(e, X.Identifier):
        return w(("eoi",) if e.value == "EOI" else ("ref", e.value))
    if isinstance(e, Group):
        return w(("group", conv(e.expression)))
    if isinstance(e, X.Sequence):
        return w(flat("seq", [conv(x) for x in e.expressions]))
    if isinstance(e, X.Choice):
        return w(flat("alt", [conv(x) for x in e.expressions]))
    if isinstance(e, X.Optional):
        return w(("opt", conv(e.expression)))
    if isinstance(e, X.Repeat):
        return w(("star", conv(e.expression)))
    if isinstance(e, X.RepeatOnce):
        return w(("plus", conv(e.expression)))
    if isinstance(e, X.RepeatExact):
        return w(("exact", conv(e.expression), e.number))
    if isinstance(e, X.RepeatMin):
        return w(("min", conv(e.expression), e.number))
    if isinstance(e, X.RepeatMax):
        return w(("max", conv(e.expression), e.number))
    if isinstance(e, X.RepeatMinMax):
        return w(("minmax", conv(e.expression), e.min, e.max))
    if isinstance(e, X.PositivePredicate):
        return w(("and", conv(e.expression)))
    if isinstance(e, X.NegativePredicate):
        return w(("not", conv(e.expression)))
    if isinstance(e, X.Push):
        return w(("push", conv(e.expression)))
    if isinstance(e, X.PushLiteral):
        return w(("pushlit", e.value))
    if isinstance(e, X.Peek):
        return w(("peek",))
    if isinstance(e, X.PeekAll):
        return w(("peekall",))
    if isinstance(e, X.Pop):
        return w(("pop",))
    if isinstance(e, X.PopAll):
        return w(("popall",))
    if isinstance(e, X.Drop):
        return w(("drop",))
    if isinstance(e, X.PeekSlice):
        return w(("slice", e.start, e.stop))
    raise ValueError(f"unknown expression class {type(e).__name__}")


def loaded_structure(parser) -> dict:
    """-> {"doc": [...], "rules": [{"name", "modifier", "doc", "expr"}]} in definition order."""
    from pest.grammar.rule import BuiltInRule

    rules = []
    for name, r in parser.rules.items():
        if isinstance(r, BuiltInRule):
            continue
        rules.append({"name": name, "modifier": MOD.get(r.modifier, f"?{r.modifier}"), "doc": list(r.doc) if r.doc else [], "expr": conv(r.expression)})
    return {"doc": list(parser.doc) if parser.doc else [], "rules": rules}
