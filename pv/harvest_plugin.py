"""pytest plugin used only inside a TEMPORARY COPY of the repository's tests: records every
(grammar text, start rule, input) the maintainers' own suite parses (DESIGN.md 3.4, corpus harvest)."""

import json
import os

_records = []
_grammars = {}


def pytest_configure(config):
    import hashlib

    import pest

    orig_from = pest.Parser.from_grammar.__func__
    orig_parse = pest.Parser.parse

    def from_grammar(cls, grammar, **kw):
        p = orig_from(cls, grammar, **kw)
        h = hashlib.sha1(grammar.encode("utf-8", "surrogatepass")).hexdigest()[:16]
        _grammars[h] = grammar
        p._pv_gid = h
        return p

    def parse(self, start_rule, text, *, start_pos=0):
        gid = getattr(self, "_pv_gid", None)
        if gid is not None and isinstance(text, str) and isinstance(start_rule, str):
            _records.append((gid, str(start_rule), text, start_pos))
        return orig_parse(self, start_rule, text, start_pos=start_pos)

    pest.Parser.from_grammar = classmethod(from_grammar)
    pest.Parser.parse = parse


def pytest_unconfigure(config):
    out = os.environ.get("PV_HARVEST_OUT")
    if out:
        seen = set()
        recs = []
        for r in _records:
            if r not in seen:
                seen.add(r)
                recs.append(list(r))
        with open(out, "w", encoding="utf-8") as fd:
            json.dump({"grammars": _grammars, "records": recs}, fd)
