"""Engine workload shared by the behavioural checks (C01-C08, C13, C16).

A worker takes a shard description, generates grammars + inputs, computes the reference
result of every case with pv.ref.refpeg, then runs the REAL code in two phases:

   phase U : optimizer=None        -> modes I  and GI   (no optimizer has run in the process)
   phase O : optimizer configs     -> modes O  and GO   (and custom pipelines for C02)

and hands every observed result to the judges selected for the property under check.
"""

from __future__ import annotations

import json
import random

from pv import monitor
from pv.common import Acc, seed_int, sha
from pv.gen import grammars as G
from pv.modes import Modes, brief, brief_ref, ref_tree, run, shift_tree, strip_tags
from pv.ref.refpeg import Abstain, Ref, features, grammar_text, uses_soi

ABSTAIN = "ABSTAIN"
ABSTAIN_REF_ONLY = "ABSTAIN_REF_ONLY"  # the statements leave the RESULT open, but totality / relative / invariant judges still apply
KINDS = {
    "str", "ci", "range", "builtin", "any", "soi", "eoi", "ref", "seq", "alt", "opt", "star", "plus",
    "exact", "min", "max", "minmax", "and", "not", "push", "pushlit", "peek", "peekall", "pop",
    "popall", "drop", "slice", "tag", "group", "newline",
}


def rules_from_json(d: dict) -> dict:
    def t(x):
        if isinstance(x, list):
            if x and isinstance(x[0], str) and x[0] in KINDS:
                return tuple(t(i) for i in x)
            return [t(i) for i in x]
        return x

    return {n: (m, t(x)) for n, (m, x) in d.items()}


# ----------------------------------------------------------------------------------------
# grammar sources


def gen_grammars(shard: dict):
    """Yields (label, rules)."""
    src = shard["source"]
    if src == "random":
        prof = dict(G.PROFILES[shard["profile"]])
        prof.update(shard.get("profile_overrides", {}))
        for i in range(shard["count"]):
            rnd = random.Random(seed_int(shard["seed"], "g", i))
            g = G.GrammarGen(rnd, prof).grammar(maxdepth=shard.get("maxdepth", 3))
            if shard.get("rename") and i % 2 == 0:
                g = G.rename_rules(g, rnd)
            yield f"random/{shard['profile']}/{shard['seed']}/{i}", g
    elif src == "stackscen":
        for i in range(shard["count"]):
            rnd = random.Random(seed_int(shard["seed"], "sc", i))
            yield f"stackscen/{shard['seed']}/{i}", G.stack_scenario(rnd)
    elif src == "coretrees":
        for idx in shard["indices"]:
            yield G.core_tree_case(shard["depth"], idx)
    elif src == "stackdig":
        for idx in shard["indices"]:
            label, rules, inputs = G.stack_dig_case(idx)
            EXTRA_INPUTS[label] = inputs
            yield label, rules
    elif src == "scale":
        for idx in shard["indices"]:
            c = G.scale_case(idx)
            if c is not None:
                EXTRA_INPUTS[c[0]] = c[2]
                yield c[0], c[1]
    elif src == "stackswap":
        for idx in shard["indices"]:
            label, rules, inputs = G.stack_swap_case(idx)
            EXTRA_INPUTS[label] = inputs
            yield label, rules
    elif src == "opttargets":
        for idx in shard["indices"]:
            label, rules, inputs = G.opt_target_case(idx)
            EXTRA_INPUTS[label] = inputs
            yield label, rules
    elif src == "matrix":
        for idx in shard["indices"]:
            c = G.matrix_case(idx)
            if c is not None:
                f = features(c[1])
                mf = shard.get("matrix_filter")
                if mf in ("nostack", "core") and f & {"push", "pushlit", "pop", "peek", "drop", "peekall", "popall", "slice"}:
                    continue
                if mf == "core" and f & {"mod@", "mod$", "mod!", "tag"}:
                    continue
                if mf == "stack" and not f & {"push", "pushlit", "pop", "peek", "drop", "peekall", "popall", "slice"}:
                    continue
                yield "matrix/" + c[0], c[1]
    elif src == "explicit":
        for i, g in enumerate(shard["grammars"]):
            yield g.get("label", f"explicit/{i}"), rules_from_json(g["rules"])
    else:
        raise ValueError(src)


EXTRA_INPUTS: dict[str, list[str]] = {}
# rule nesting beyond this is an abstention ("nesting within the interpreter's recursion budget"): the workers run with a
# recursion limit of 20 000 frames, the interpreter needs about a dozen frames per rule level
MAX_RULE_DEPTH = 350


class GCase:
    __slots__ = ("label", "rules", "text", "inputs", "info", "ref", "refres", "starts", "feats", "refev", "u_results")

    def __init__(self, label, rules):
        self.label = label
        self.rules = rules
        self.text = grammar_text(rules)
        self.feats = features(rules)
        self.u_results: dict = {}


# ----------------------------------------------------------------------------------------
# violation bookkeeping


class Reporter:
    """Keeps, per violation key, the PER_KEY smallest witnesses (grammar + input length)."""

    PER_KEY = 2

    def __init__(self, acc: Acc):
        self.acc = acc
        self.per_key: dict[tuple, list] = {}
        self.total = 0

    def violation(self, judge: str, key: tuple, gc: GCase, rule: str, inp: str, start: int, mode: str, expected, observed, extra: dict | None = None):
        k = (judge,) + key
        self.total += 1
        size = len(gc.text) + len(inp)
        lst = self.per_key.setdefault(k, [])
        if len(lst) >= self.PER_KEY and size >= lst[-1][0]:
            return
        d = {
            "judge": judge,
            "key": list(key),
            "label": gc.label,
            "grammar": gc.text,
            "rule": rule,
            "input": inp,
            "start": start,
            "mode": mode,
            "expected": expected,
            "observed": observed,
            "rules": gc.rules,
        }
        if extra:
            d.update(extra)
        lst.append((size, self.total, d))
        lst.sort(key=lambda t: t[:2])
        del lst[self.PER_KEY :]

    def flush(self) -> None:
        kept = 0
        for _k, lst in sorted(self.per_key.items(), key=lambda kv: kv[1][0][:2]):
            for _size, _n, d in lst:
                self.acc.violation(d["judge"], d)
                kept += 1
        # acc.violation() counted the kept ones; add the rest
        self.acc.nviol += self.total - kept


# ----------------------------------------------------------------------------------------
# C06 invariants on a successful result


def check_tree_invariants(pairs, text: str, start: int, rule_names: set[str], tags: set[str], start_rule_silent: bool) -> str | None:
    """Returns a description of the first broken invariant, or None."""
    import json as _json

    from pest.pairs import End, Start

    n = len(text)

    def chk(p, lo, hi, depth):
        if not (start <= p.start <= p.end <= n):
            return f"pair {p.name}({p.start},{p.end}) violates start_pos <= start <= end <= len"
        if p.text != text[p.start : p.end] or str(p) != text[p.start : p.end]:
            return f"pair {p.name} text {p.text!r} != input[{p.start}:{p.end}]"
        if p.start < lo or p.end > hi:
            return f"pair {p.name}({p.start},{p.end}) is outside its parent's span ({lo},{hi})"
        if p.name not in rule_names:
            return f"pair name {p.name!r} is not a non-silent rule of the grammar"
        if p.tag is not None and p.tag not in tags:
            return f"pair tag {p.tag!r} is not written in the grammar"
        prev_end = p.start
        for c in p.children:
            if c.start < prev_end:
                return f"children of {p.name}({p.start},{p.end}) overlap or are out of order at {c.name}({c.start},{c.end})"
            r = chk(c, p.start, p.end, depth + 1)
            if r:
                return r
            prev_end = c.end
        return None

    prev_end = start
    plist = list(pairs)
    for p in plist:
        if p.start < prev_end:
            return f"top-level pairs overlap or are out of order at {p.name}({p.start},{p.end})"
        r = chk(p, start, n, 0)
        if r:
            return r
        prev_end = p.end
    if not start_rule_silent:
        if len(plist) != 1:
            return f"non-silent start rule produced {len(plist)} root pairs"
        if plist[0].start != start:
            return f"root pair starts at {plist[0].start}, not at start_pos {start}"
    # tokens(): balanced, non-decreasing
    stack = []
    last = start
    ntok = 0
    for tok in pairs.tokens():
        ntok += 1
        if tok.pos < last:
            return f"tokens() positions decrease: {tok!r} after position {last}"
        last = tok.pos
        if isinstance(tok, Start):
            stack.append(tok.rule.name)
        elif isinstance(tok, End):
            if not stack or stack.pop() != tok.rule.name:
                return f"tokens() unbalanced at {tok!r}"
        else:
            return f"tokens() yielded {type(tok).__name__}"
    if stack:
        return "tokens() ended with open Start tokens"
    # flatten() is the pre-order
    pre = []

    def walk(p):
        pre.append(p)
        for c in p.children:
            walk(c)

    for p in plist:
        walk(p)
    flat = list(pairs.flatten())
    if len(flat) != len(pre) or any(a is not b for a, b in zip(flat, pre)):
        return "flatten() is not the pre-order of the tree"
    if ntok != 2 * len(pre):
        return "tokens() does not have one Start and one End per pair"
    # dump / dumps
    try:
        d = pairs.dump()
        js = pairs.dumps(compact=False)
        compact = pairs.dumps()
    except Exception as e:  # noqa: BLE001
        return f"dump()/dumps() raised {type(e).__name__}: {e}"
    try:
        if _json.loads(js) != d:
            return "json.loads(dumps(compact=False)) != dump()"
    except Exception as e:  # noqa: BLE001
        return f"dumps(compact=False) is not JSON: {e}"

    def ok_dump(dd, p):
        return (
            dd.get("rule") == p.name
            and dd.get("span") == {"str": text[p.start : p.end], "start": p.start, "end": p.end}
            and dd.get("node_tag", None) == p.tag
            and len(dd.get("inner", ())) == len(p.children)
            and all(ok_dump(x, c) for x, c in zip(dd["inner"], p.children))
        )

    if len(d) != len(plist) or not all(ok_dump(x, p) for x, p in zip(d, plist)):
        return "dump() does not mirror the tree"
    if compact != render_compact(d):
        return "dumps() (compact) disagrees with dump()"
    return None


def render_compact(dump: list) -> str:
    """Independent renderer of pest's compact tree format from dump()."""

    def fmt(d, indent, new_line):
        inner = d["inner"]
        n = len(inner)
        ind = "  " * indent if new_line else ""
        dash = "- " if new_line else ""
        tag = (d["node_tag"] + " ") if d.get("node_tag") else ""
        if n == 0:
            return f"{ind}{dash}{tag}{d['rule']}: {json.dumps(d['span']['str'])}"
        if n == 1:
            return f"{ind}{dash}{tag}{d['rule']} > {fmt(inner[0], indent, False)}"
        kids = "\n".join(fmt(c, indent + 1, True) for c in inner)
        return f"{ind}{dash}{tag}{d['rule']}\n{kids}"

    return "\n".join(fmt(d, 0, True) for d in dump)


# ----------------------------------------------------------------------------------------
# C13 checks on a failure


_BREAKS = "\n\r\x0b\x0c\x1c\x1d\x1e\x85\u2028\u2029"


def _where_nl(text: str, p: int) -> tuple[int, int, str]:
    """(line, column, stripped source line) of offset p when only "\n" ends a line."""
    ls = text.rfind("\n", 0, p) + 1
    le = text.find("\n", p)
    return 1 + text.count("\n", 0, p), p - ls + 1, text[ls : le if le != -1 else len(text)].rstrip()


def _where_splitlines(text: str, p: int) -> tuple[int, int, str]:
    """Same under the line boundaries of str.splitlines(), written as a scan (not with splitlines itself)."""
    line, ls, i = 1, 0, 0
    while i < p:
        c = text[i]
        if c == "\r" and text[i + 1 : i + 2] == "\n":
            if i + 1 >= p:
                break  # p sits between "\r" and "\n": still on this line
            i += 2
            line, ls = line + 1, i
            continue
        i += 1
        if c in _BREAKS:
            line, ls = line + 1, i
    le = ls
    while le < len(text) and text[le] not in _BREAKS:
        le += 1
    return line, p - ls + 1, text[ls:le].rstrip()


def check_failure(exc, text: str, start: int, known_names: set[str]) -> str | None:
    import re as _re

    st = exc.state
    p = st.furthest_pos
    if not (p == -1 or start <= p <= len(text)):
        return f"furthest_pos {p} outside {{-1}} U [{start}, {len(text)}]"
    for name in list(st.furthest_expected) + list(st.furthest_unexpected):
        if name not in known_names:
            return f"expected/unexpected lists {name!r}, which is neither a rule of the grammar nor a built-in"
    try:
        msg = str(exc)
        dm = exc.detailed_message()
        exc.expected_labels(st.furthest_expected, st.furthest_unexpected)
        exc.expected(st.furthest_expected, st.furthest_unexpected)
    except Exception as e:  # noqa: BLE001
        return f"rendering the error raised {type(e).__name__}: {e}"
    if not isinstance(msg, str) or not isinstance(dm, str):
        return "message is not a string"
    if p >= 0:
        # the statement fixes WHAT is shown (line:column and source line of p), not the layout of the message:
        # look for the expected values anywhere in the rendered text.  Two line conventions are accepted: lines end
        # at "\n" only, or at every boundary of str.splitlines() ("\r\n" counting as ONE break); they coincide on
        # texts without the exotic break characters.
        found = _re.findall(r"(?<![\d:])(\d+):(\d+)(?![\d:])", dm)
        if found:
            shown = [ln.split("|", 1)[1].strip() for ln in dm.split("\n") if _re.match(r"\s*\d+\s*\|", ln)]
            whys = []
            for line, col, src in {_where_nl(text, p), _where_splitlines(text, p)}:
                if (str(line), str(col)) not in found:
                    whys.append(f"message says {' / '.join(a + ':' + b for a, b in found[:3])} but position {p} is {line}:{col}")
                elif src and len(src) <= 200 and src not in dm:
                    whys.append(f"the source line containing position {p} ({src!r}) is not shown in the message")
                elif not src and any(shown):
                    # an empty line must not be replaced by some other line of the input
                    whys.append(f"position {p} is on an empty line but the message shows {shown!r}")
                else:
                    return None
            return whys[0]
    return None


# ----------------------------------------------------------------------------------------
# the worker


def prepare_case(gc: GCase, shard: dict, rnd: random.Random, acc: Acc) -> bool:
    """Inputs + reference results.  False when the grammar is unusable."""
    ref = Ref(gc.rules)
    gc.ref = ref
    names = [n for n in gc.rules if n not in ("WHITESPACE", "COMMENT")]
    if shard.get("start_rules") == "all":
        gc.starts = names
    else:
        gc.starts = names[:1]
    cap = shard.get("cap", 200)
    if shard.get("explicit_cases") is not None:
        gc.info = {"explicit": True}
        gc.inputs = []
        refres = {}
        refev = {}
        for rule, inp, st in shard["explicit_cases"]:
            try:
                r = ref.parse(rule, inp, st)
                refres[(rule, inp, st)] = None if r is None else ref_tree(r)
                refev[(rule, inp, st)] = (ref.steps, ref.maxdepth)
            except (Abstain, RecursionError) as a:
                refres[(rule, inp, st)] = ABSTAIN
                acc.count("abstain." + str(a).replace(" ", "_"))
        gc.refres = refres
        gc.refev = refev
        return True
    inputs, info = G.inputs_for(gc.rules, gc.starts[0], rnd, cap, shard.get("maxlen", 4), shard.get("extra_alpha", ""))
    for extra_in in EXTRA_INPUTS.pop(gc.label, []):
        if extra_in not in inputs:
            inputs.append(extra_in)
    if shard.get("long_inputs"):
        # a separate RNG: the short inputs of a grammar do not depend on whether long ones are added
        lrnd = random.Random(seed_int(shard["seed"], "long", gc.label))
        for li in G.long_inputs(gc.rules, gc.starts[0], lrnd, G.alphabet(gc.rules, shard.get("extra_alpha", "")), shard["long_inputs"]):
            if li not in inputs:
                inputs.append(li)
                acc.count("long_inputs")
                acc.maxi("longest_input", len(li))
    gc.info = info
    gc.inputs = inputs
    positions = shard.get("positions", False)
    refres = {}
    refev = {}
    for rule in gc.starts:
        for inp in inputs:
            starts = [0]
            if positions and len(inp) <= 5 and not gc.feats & {"soi"}:
                starts = list(range(len(inp) + 1))
            elif positions and inp:
                starts = [0, rnd.randrange(len(inp) + 1)]
            for st in starts:
                try:
                    r = ref.parse(rule, inp, st)
                    refres[(rule, inp, st)] = None if r is None else ref_tree(r)
                    refev[(rule, inp, st)] = (ref.steps, ref.maxdepth)
                    for k, v in ref.ev.items():
                        acc.c["ref." + k] += v
                except Abstain as a:
                    refres[(rule, inp, st)] = ABSTAIN_REF_ONLY if str(a).startswith("slice bound") else ABSTAIN
                    if str(a).startswith("slice bound"):
                        refev[(rule, inp, st)] = (ref.steps, ref.maxdepth)
                    acc.count("abstain." + str(a).replace(" ", "_"))
                except RecursionError:
                    refres[(rule, inp, st)] = ABSTAIN
                    acc.count("abstain.reference_recursion")
    gc.refres = refres
    gc.refev = refev
    return True


_ORDERED: dict[int, list[tuple[int, ...]]] = {}


def ordered_subsets(k: int) -> list[tuple[int, ...]]:
    """Every non-empty ordered selection without repetition of k passes (325 for k = 5)."""
    if k not in _ORDERED:
        import itertools

        _ORDERED[k] = [p for n in range(1, k + 1) for p in itertools.permutations(range(k), n)]
    return _ORDERED[k]


def pipeline_configs(seed: int, label: str, n: int, mode: str = "mixed"):
    """Seeded optimizer configurations drawn from DEFAULT_OPTIMIZER_PASSES (C02)."""
    from pest import DEFAULT_OPTIMIZER_PASSES

    rnd = random.Random(seed_int(seed, "pipe", label))
    k = len(DEFAULT_OPTIMIZER_PASSES)
    if mode == "ordered":
        allp = ordered_subsets(k)
        return list(allp) if n <= 0 or n >= len(allp) else rnd.sample(allp, n)
    cfgs: list[tuple[int, ...]] = []
    singles = list(range(k))
    rnd.shuffle(singles)
    for i in range(n):
        c = rnd.random()
        if i == 1:
            cfgs.append((singles[1],) * 6)  # one pass listed six times: a pass must be idempotent enough to survive it
        elif i < 1 or c < 0.2:
            cfgs.append((singles[i % k],))
        elif c < 0.4:
            cfgs.append(tuple(sorted(rnd.sample(range(k), rnd.randint(2, k)))))  # subset, default order
        elif c < 0.8:
            cfgs.append(tuple(rnd.sample(range(k), rnd.randint(2, k))))  # permutation of a subset
        else:
            cfgs.append(tuple(rnd.randrange(k) for _ in range(rnd.randint(2, 7))))  # with repetitions
    return cfgs


def worker(shard: dict) -> dict:  # noqa: PLR0912, PLR0915
    acc = Acc()
    rep = Reporter(acc)
    judges = set(shard["judges"])
    monitor.install()
    monitor.CFG["t1"] = "t1" in judges
    monitor.CFG["t4"] = "c13" in judges
    cases: list[GCase] = []
    for label, rules in gen_grammars(shard):
        gc = GCase(label, rules)
        rnd = random.Random(seed_int(shard["seed"], "in", label))
        prepare_case(gc, shard, rnd, acc)
        cases.append(gc)
        acc.count("grammars")
        for f in gc.feats:
            acc.count("grammars_with." + f)
    sample_at = shard.get("sample_at", 0)
    npipes = shard.get("pipelines", 0) if "c02" in judges else 0

    for phase in ("U", "O"):
        modes_of_phase = [m for m in shard["modes"] if (m in ("I", "GI")) == (phase == "U")]
        if not modes_of_phase and not (phase == "O" and npipes):
            continue
        for gc in cases:
            md = Modes(gc.text)
            objs = {}
            for m in modes_of_phase:
                o = md.get(m)
                if o is None:
                    err = md.errors[m]
                    acc.count(f"build_failed.{m}.{err[0]}.{err[1]}")
                    if err[0] in ("generate", "import") and "c01" in judges:
                        rep.violation("c01", ("build", m, err[1]), gc, "", "", 0, m, "generate() output compiles and imports", list(err))
                    elif err[0] == "load" and m in ("O", "GO") and md.parser("I") is not None and "c02" in judges:
                        # the same text loads with optimizer=None: the default optimizer refused or crashed
                        rep.violation("c02", ("default-optimizer-load", err[1]), gc, "", "", 0, m, "loads like optimizer=None does", list(err))
                    elif err[0] == "load":
                        # the front end rejected (or crashed on) a printed grammar: that is C10/C11's business
                        acc.count("abstain.front_end_rejected_grammar")
                        if len(acc.samples) < 6:
                            acc.sample({"front_end_rejected": gc.text, "error": list(err)[:2]})
                    continue
                if m in ("GI", "GO"):
                    monitor.attach(o)
                objs[m] = o
            pipe_desc: dict[str, list[str]] = {}
            if phase == "O" and npipes and "I" in gc.u_results.get("_built", {"I": 1}):
                from pest import DEFAULT_OPTIMIZER_PASSES, Optimizer

                for ci, cfg in enumerate(pipeline_configs(shard["seed"], gc.label, npipes, shard.get("pipeline_mode", "mixed"))):
                    key = f"P{ci}"
                    opt = Optimizer([DEFAULT_OPTIMIZER_PASSES[i] for i in cfg])
                    names = [DEFAULT_OPTIMIZER_PASSES[i].name for i in cfg]
                    pipe_desc[key] = names
                    pipe_desc["G" + key] = names
                    try:
                        from pest import Parser

                        po = Parser.from_grammar(gc.text, optimizer=opt, debug=True)
                    except Exception as e:  # noqa: BLE001
                        acc.count(f"build_failed.pipeline.{type(e).__name__}")
                        if md.parser("I") is not None:
                            rep.violation("c02", ("pipeline-load", type(e).__name__), gc, "", "", 0, "+".join(names), "loads like optimizer=None does", f"{type(e).__name__}: {e}"[:300])
                        continue
                    acc.count("c02.pipelines_built")
                    acc.count("c02.pipeline_kind." + ("single" if len(cfg) == 1 else "multi"))
                    if shard.get("pipeline_mode") == "ordered":
                        acc.add_to("c02.ordered_pass_selections", ">".join(names))
                    for line in opt.log:
                        acc.count("c02.rewrites_fired." + line.split("(", 1)[0])
                    md.objs[key] = po
                    objs[key] = po
                    if "GI" in shard["modes"] or "GO" in shard["modes"]:
                        g = md.generated("G" + key, base=key)
                        if g is None:
                            err = md.errors["G" + key]
                            rep.violation("c02", ("pipeline-generate", err[1]), gc, "", "", 0, "+".join(names), "generated module builds", list(err))
                        else:
                            monitor.attach(g)
                            objs["G" + key] = g
            if phase == "O" and "O" in objs and "c02" in judges:
                # count what the default pipeline rewrote on this grammar (separate debug build, not used for parsing)
                try:
                    from pest import DEFAULT_OPTIMIZER_PASSES, Optimizer, Parser

                    dbg = Optimizer(list(DEFAULT_OPTIMIZER_PASSES))
                    Parser.from_grammar(gc.text, optimizer=dbg, debug=True)
                    for line in dbg.log:
                        acc.count("c02.default_rewrites_fired." + line.split("(", 1)[0])
                except Exception:  # noqa: BLE001, S110
                    pass
            if "c01" in judges:
                for m in modes_of_phase:
                    if m in ("I", "O") and m in objs and ("G" + m) in objs:
                        again = objs[m].generate()
                        acc.count("c01.generate_twice")
                        acc.count("c01.generated_bytes", len(again))
                        if again != md.sources["G" + m]:
                            rep.violation("c01", ("nondeterministic-generate", m), gc, "", "", 0, m, "byte-identical source", "second generate() differs")
            known_names = None
            silent_rules = {n for n, (mm, _x) in gc.rules.items() if mm == "_"}
            nonsilent = {n for n, (mm, _x) in gc.rules.items() if mm != "_"} | {"EOI"}
            tags = {n[1] for _nm, (_mm, x) in gc.rules.items() for n in G.walk(x) if n[0] == "tag"}
            soi_free = not uses_soi(gc.rules)
            distinct_here = 0
            c16_budget = shard.get("c16_inputs", 40)
            for (rule, inp, st), want in gc.refres.items():
                if want is ABSTAIN:
                    continue
                ref_only = want is ABSTAIN_REF_ONLY
                if ref_only:
                    if judges <= {"ref", "t1"}:
                        continue
                    want = None
                    acc.count("cases_judged_without_reference_result")
                steps, depth = gc.refev[(rule, inp, st)]
                if depth > MAX_RULE_DEPTH:
                    acc.count("abstain.deep_input")
                    continue
                if depth > 60:
                    acc.count("inputs_with_rule_depth_over_60")
                if depth >= 100:
                    acc.count("inputs_with_rule_depth_100_or_more")
                monitor.set_budget(1000 * steps + 100_000)
                results = {}
                for m, o in objs.items():
                    keep: list = []
                    try:
                        res = run(o, rule, inp, st, keep)
                    except monitor.BudgetExceeded as b:
                        res = ("exc", "BudgetExceeded", str(b))
                    except monitor.MonitorViolation as mv:
                        rep.violation("t1" if "t1" in judges else "monitor", (mv.what, m), gc, rule, inp, st, m, "state discipline", mv.detail)
                        res = ("exc", "MonitorViolation", mv.what)
                    results[m] = res
                    acc.count("parses")
                    acc.count(f"outcome.{m if m in ('I', 'GI', 'O', 'GO') else ('GP' if m[0] == 'G' else 'P')}.{res[0]}")
                    raw = keep[0] if keep else None
                    # ---------- reference judge (C03 / C04 / C05)
                    if "ref" in judges and not ref_only:
                        acc.count("ref.comparisons")
                        if res[0] == "ok":
                            got = strip_tags(res[1])
                            if want is None or got != want:
                                kind = "accepts-where-reference-fails" if want is None else "tree-differs"
                                rep.violation("ref", (m, kind), gc, rule, inp, st, m, brief_ref(want), brief(res))
                        elif res[0] == "fail":
                            if want is not None:
                                rep.violation("ref", (m, "fails-where-reference-matches"), gc, rule, inp, st, m, brief_ref(want), brief(res))
                        elif res[1] != "RecursionError":
                            rep.violation("ref", (m, "exception", res[1]), gc, rule, inp, st, m, brief_ref(want), brief(res))
                    # ---------- C07 totality
                    if "c07" in judges:
                        acc.count("c07.calls")
                        if res[0] == "exc" and res[1] != "RecursionError":
                            rep.violation("c07", (m, res[1]), gc, rule, inp, st, m, "Pairs or PestParsingError", brief(res))
                        elif res[0] == "exc":
                            acc.count("abstain.impl_recursion_error")
                        else:
                            acc.count("c07.outcome." + res[0])
                            res2 = run(o, rule, inp, st)
                            acc.count("c07.repeat_calls")
                            if res2 != res:
                                rep.violation("c07", (m, "nondeterministic"), gc, rule, inp, st, m, brief(res), brief(res2))
                            if not inp:
                                acc.count("c07.empty_input_calls")
                    # ---------- C06 well-formedness
                    if "c06" in judges and res[0] == "ok":
                        acc.count("c06.trees_checked")
                        why = check_tree_invariants(raw, inp, st, nonsilent, tags, rule in silent_rules)
                        if why:
                            w = why.split(" ")
                            rep.violation("c06", (m, w[0], w[1] if len(w) > 1 else ""), gc, rule, inp, st, m, "well-formed tree", why, {"tree": brief(res)})
                        else:
                            flat = list(raw.flatten())
                            acc.count("c06.pairs_checked", len(flat))
                            acc.maxi("c06.max_pairs_in_tree", len(flat))
                            if st:
                                acc.count("c06.trees_with_start_pos")
                            if any(p.tag for p in flat):
                                acc.count("c06.trees_with_tags")
                            if any(p.start == p.end for p in flat):
                                acc.count("c06.trees_with_zero_width_pairs")
                            if any(p.name in ("WHITESPACE", "COMMENT") for p in flat):
                                acc.count("c06.trees_with_trivia_pairs")
                            if any(p.name == "EOI" for p in flat):
                                acc.count("c06.trees_with_EOI")
                    # ---------- C13 failures
                    if "c13" in judges and res[0] == "fail":
                        if known_names is None:
                            from pest import Parser

                            known_names = set(gc.rules) | set(Parser.BUILTIN)
                        acc.count("c13.failures_checked")
                        p = res[1]
                        cls = "sentinel" if p == -1 else "at_start" if p == st else "at_end" if p == len(inp) else "interior"
                        acc.count("c13.position_class." + cls)
                        if "\n" in inp:
                            acc.count("c13.multi_line_inputs")
                            if p > 0 and inp[p - 1 : p] == "\n":
                                acc.count("c13.failure_right_after_newline")
                        why = check_failure(raw, inp, st, known_names)
                        if why:
                            w = why.split(" ")
                            rep.violation("c13", (m, w[0], w[1] if len(w) > 1 else ""), gc, rule, inp, st, m, "valid failure record", why, {"result": brief(res)})
                    # ---------- C16: start_pos = k == suffix parse shifted by k
                    if "c16" in judges and st == 0 and soi_free and inp and c16_budget > 0 and res[0] != "exc":
                        for k in range(len(inp) + 1):
                            rk = run(o, rule, inp, k)
                            rs = run(o, rule, inp[k:], 0)
                            acc.count("c16.comparisons")
                            acc.count("c16.k_class." + ("0" if k == 0 else "len" if k == len(inp) else "interior"))
                            if rs[0] == "ok":
                                exp = ("ok", shift_tree(rs[1], k))
                            elif rs[0] == "fail":
                                exp = ("fail", rs[1] + k if rs[1] >= 0 else rs[1]) + rs[2:]
                                acc.count("c16.failing_parses")
                            else:
                                exp = rs
                            if rk != exp and not (rk[0] == "exc" and rk[1] == "RecursionError"):
                                rep.violation("c16", (m, f"{rk[0]}-vs-{exp[0]}"), gc, rule, inp, k, m, brief(exp), brief(rk), {"suffix_result": brief(rs)})
                            if k:
                                # characters before start_pos are never consulted
                                # (an ASCII replacement, a non-ASCII one, and one that is a line break: whole-text properties
                                # such as str.isascii() or the number of lines must not leak into the result either)
                                for vi, fill in enumerate(("q", "\u00e9", "\n")):
                                    other = "".join(fill if c != fill else "r" for c in inp[:k]) + inp[k:]
                                    ro = run(o, rule, other, k)
                                    acc.count("c16.prefix_variations")
                                    if ro != rk:
                                        rep.violation("c16", (m, "prefix-consulted", str(vi)), gc, rule, inp, k, m, brief(rk), brief(ro), {"varied_text": other})
                                        break
                if "c16" in judges and st == 0 and inp:
                    c16_budget -= 1
                # ---------- C01: generated == interpreter on the same Parser
                if "c01" in judges:
                    for a, b in (("I", "GI"), ("O", "GO")):
                        if a in results and b in results:
                            ra, rb = results[a], results[b]
                            acc.count("c01.comparisons")
                            if st:
                                acc.count("c01.comparisons_with_start_pos")
                            if ra[0] == "exc":
                                acc.count("c01.abstain_interpreter_raised")
                                continue
                            if ra[0] == "ok":
                                same = rb == ra
                            else:
                                same = rb[0] == "fail" and rb[1] == ra[1]
                                if same:
                                    acc.count("c01.failures_with_equal_furthest_pos")
                            if not same and not (rb[0] == "exc" and rb[1] == "RecursionError"):
                                kind = f"{ra[0]}-vs-{rb[0]}" + ("-pos" if ra[0] == rb[0] == "fail" else "")
                                rep.violation("c01", (b, kind), gc, rule, inp, st, b, brief(ra), brief(rb))
                # ---------- C02: remember unoptimized results / compare optimized ones
                if "c02" in judges:
                    if phase == "U":
                        gc.u_results[(rule, inp, st)] = dict(results)
                    else:
                        base = gc.u_results.get((rule, inp, st), {})
                        for b, rb in results.items():
                            a = "GI" if b.startswith("G") else "I"
                            if a not in base:
                                continue
                            ra = base[a]
                            acc.count("c02.comparisons")
                            if ra[0] == "exc" or (rb[0] == "exc" and rb[1] == "RecursionError"):
                                acc.count("c02.abstain_exception")
                                continue
                            same = (ra[0] == rb[0]) and (ra[0] != "ok" or ra[1] == rb[1])
                            if not same:
                                desc = "+".join(pipe_desc[b]) if b in pipe_desc else "default"
                                single = pipe_desc[b][0] if b in pipe_desc and len(pipe_desc[b]) == 1 else ("default" if b in ("O", "GO") else "multi")
                                rep.violation("c02", ("G" if b.startswith("G") else "interp", single, f"{ra[0]}-vs-{rb[0]}"), gc, rule, inp, st, b, brief(ra), brief(rb), {"pipeline": desc})
                if want is not None or inp:
                    distinct_here += 1
                if acc.c["parses"] >= sample_at and len(acc.samples) < 3 and want is not None and want and not ref_only:
                    acc.sample({"grammar": gc.text, "rule": rule, "input": inp, "start": st, "reference": brief_ref(want), "observed": {m: brief(r) for m, r in results.items()}})
            if "c01" in judges:
                # lazily filled caches must not leak into the generated source
                for m in modes_of_phase:
                    if m in ("I", "O") and m in objs and ("G" + m) in objs:
                        acc.count("c01.generate_after_parses")
                        if objs[m].generate() != md.sources["G" + m]:
                            rep.violation("c01", ("generate-changed-after-parses", m), gc, "", "", 0, m, "byte-identical source", "generate() after parsing differs")
            if phase == "U" or not [m for m in shard["modes"] if m in ("I", "GI")]:
                acc.group_distinct(sha(gc.text)[:16], distinct_here)
            objs.clear()
        # between the phases nothing of phase O has been imported or run yet
    rep.flush()
    for k, v in monitor.STATS.items():
        if k.endswith("max_depth"):
            acc.maxi(k, v)
        else:
            acc.c[k] += v
    return acc.dump()


# ----------------------------------------------------------------------------------------
# replay of one engine violation


def replay_violation(prop: str, path: str, judges: list[str]) -> int:
    from pv.common import load_replay

    v = load_replay(path)["violation"]
    if v.get("bundled"):
        from pv.checks import bundled

        return bundled.replay_bundled(prop, path, v, judges)
    shard = {
        "prop": prop,
        "judges": judges,
        "source": "explicit",
        "grammars": [{"label": v.get("label", "replay"), "rules": v["rules"]}],
        "explicit_cases": [[v["rule"], v["input"], v["start"]]] if v.get("rule") else [],
        "seed": 0,
        "modes": ["I", "GI", "O", "GO"],
    }
    d = worker(shard)
    print("grammar:\n" + v["grammar"])
    print(f"rule={v['rule']!r} input={v['input']!r} start={v['start']} mode={v['mode']}")
    if d["nviol"] or d["violations"]:
        for x in d["violations"]:
            print("reproduced:", x["judge"], x["mode"], "expected", x["expected"], "observed", x["observed"])
        print(f"VIOLATION property={prop} replay={path}")
        return 1
    print("not reproduced")
    return 0
