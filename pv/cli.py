"""./check <ID> [--tier quick|thorough] [--seed N] [--replay path]"""

from __future__ import annotations

import argparse
import importlib
import os
import sys


def main() -> int:
    ap = argparse.ArgumentParser(prog="check")
    ap.add_argument("prop")
    ap.add_argument("--tier", default=os.environ.get("VERIF_TIER") or "quick")
    ap.add_argument("--seed", type=int, default=None)
    ap.add_argument("--replay", default=None)
    a = ap.parse_args()
    tier = a.tier if a.tier in ("quick", "thorough") else "quick"
    seed = a.seed
    if seed is None:
        try:
            seed = int(os.environ.get("VERIF_SEED", "0") or 0)
        except ValueError:
            seed = 0
    sys.setrecursionlimit(20000)
    if a.prop == "selftest":
        from pv import selftest

        return selftest.main()
    mod = importlib.import_module(f"pv.checks.{a.prop.lower()}")
    if a.replay:
        return mod.replay(a.replay)
    return mod.main(tier, seed)


if __name__ == "__main__":
    sys.exit(main())
