"""The meta-grammar oracle (C10 / C11 / C08).

pest's own meta-grammar (tests/grammars/meta.pest), held as a literal reference AST
(pv/ref/meta_literal.py), is EXECUTED by the reference PEG evaluator on candidate grammar
texts (start rule `grammar_rules`).  A converter written after pest_meta's
`parser::consume_rules` (postfix operators left to right, then prefix operators right to
left, `~` tighter than `|`, the tag around the whole term) turns the pair tree into the
denoted structure; every term / node / expression also yields its source span, which is what
C08's text splicing needs.

The literal is not trusted: selftest() parses the file of the current tree with the literal,
converts it and requires the result to equal the literal (fix-point), requires all bundled
.pest files to be accepted and a table of hand-written accept / reject / structure facts to
hold.  A failing self-test makes a run inconclusive, never a violation.
"""

from __future__ import annotations

import glob
import os

from pv.common import REPO
from pv.ref.meta_literal import META
from pv.ref.refpeg import Abstain, Ref

STACK_IDENTS = {"PEEK": ("peek",), "POP": ("pop",), "DROP": ("drop",), "PEEK_ALL": ("peekall",), "POP_ALL": ("popall",)}
MODS = {"silent_modifier": "_", "atomic_modifier": "@", "compound_atomic_modifier": "$", "non_atomic_modifier": "!"}
MAX_COUNT = 64
MAX_NEST = 40


class OutOfScope(Exception):
    """The text is outside the oracle's stated scope (abstain)."""


_BUILTIN_NAMES: set[str] | None = None


def builtin_names() -> set[str]:
    global _BUILTIN_NAMES  # noqa: PLW0603
    if _BUILTIN_NAMES is None:
        from pest import Parser

        _BUILTIN_NAMES = set(Parser.BUILTIN)
    return _BUILTIN_NAMES


def ident_node(name: str):
    if name == "ANY":
        return ("any",)
    if name == "SOI":
        return ("soi",)
    if name == "EOI":
        return ("eoi",)
    if name == "NEWLINE":
        return ("newline",)
    if name in STACK_IDENTS:
        return STACK_IDENTS[name]
    if name in builtin_names():
        return ("builtin", name)
    return ("ref", name)


def unescape(s: str) -> str:
    """Decode the escapes pest's meta-grammar defines: \\" \\\\ \\r \\n \\t \\0 \\' \\xHH \\u{H{2,6}}."""
    out = []
    i = 0
    while i < len(s):
        c = s[i]
        if c != "\\" or i + 1 >= len(s):
            out.append(c)
            i += 1
            continue
        n = s[i + 1]
        if n in "\"\\'":
            out.append(n)
            i += 2
        elif n == "n":
            out.append("\n")
            i += 2
        elif n == "r":
            out.append("\r")
            i += 2
        elif n == "t":
            out.append("\t")
            i += 2
        elif n == "0":
            out.append("\0")
            i += 2
        elif n == "x":
            out.append(chr(int(s[i + 2 : i + 4], 16)))
            i += 4
        elif n == "u":
            j = s.index("}", i)
            v = int(s[i + 3 : j], 16)
            if v > 0x10FFFF or 0xD800 <= v <= 0xDFFF:
                raise OutOfScope("\\u{} value is not a Unicode scalar value")
            out.append(chr(v))
            i = j + 1
        else:
            # not an escape by the meta-grammar (can only happen for the character '\\')
            out.append(c)
            i += 1
    return "".join(out)


def flat(kind: str, items: list):
    out = []
    for x in items:
        if x[0] == kind:
            out.extend(x[1])
        else:
            out.append(x)
    return out[0] if len(out) == 1 else (kind, out)


class Denoter:
    """Pair tree of `grammar_rules` -> structure.  Pairs are (name, start, end, children)."""

    def __init__(self, text: str):
        self.t = text
        self.features: set[str] = set()
        self.sites: list[dict] = []  # for C08: every term / node with its span and context
        self.depth = 0
        self.cur_rule = ""
        self.cur_mod = ""
        self.defined: set[str] = set()

    def txt(self, p) -> str:
        return self.t[p[1] : p[2]]

    def grammar(self, pairs) -> dict:
        gdoc: list[str] = []
        rules: list[dict] = []
        pending_doc: list[str] = []
        # a grammar rule shadows the built-in of the same name (pest's own test grammar does it with SYMBOL)
        self.defined = {self.txt(p[3][0]) for p in pairs if p[0] == "grammar_rule" and p[3][0][0] == "identifier"}
        if self.defined & (set(STACK_IDENTS) | {"ANY", "SOI", "EOI", "NEWLINE"}):
            raise OutOfScope("a rule is defined under the name of a core built-in or stack keyword (statement is silent)")
        for p in pairs:
            if p[0] == "grammar_doc":
                gdoc.append(self.txt(p[3][0]) if p[3] else "")
            elif p[0] == "grammar_rule":
                ch = p[3]
                if ch[0][0] == "line_doc":
                    pending_doc.append(self.txt(ch[0][3][0]) if ch[0][3] else "")
                    self.features.add("line_doc")
                    continue
                name = self.txt(ch[0])
                mod = ""
                i = 2
                if ch[i][0] in MODS:
                    mod = MODS[ch[i][0]]
                    i += 1
                self.cur_rule, self.cur_mod = name, mod
                expr = self.expression(ch[i + 1], ctx="rule")
                rules.append({"name": name, "modifier": mod, "doc": pending_doc, "expr": expr, "span": (p[1], p[2]), "body_span": (ch[i + 1][1], ch[i + 1][2])})
                pending_doc = []
        if pending_doc:
            self.features.add("trailing_line_doc")
        return {"doc": gdoc, "rules": rules, "trailing_doc": pending_doc}

    def expression(self, p, ctx: str):
        self.depth += 1
        if self.depth > MAX_NEST:
            raise OutOfScope("nesting deeper than the oracle's bound")
        ch = list(p[3])
        if ch and ch[0][0] == "choice_operator":
            ch = ch[1:]
            self.features.add("leading_choice_operator")
        alts: list[list] = [[]]
        spans: list[list] = [[]]
        for c in ch:
            if c[0] == "choice_operator":
                alts.append([])
                spans.append([])
            elif c[0] == "sequence_operator":
                pass
            else:
                alts[-1].append(self.term(c, ctx))
                spans[-1].append((c[3][0][1], c[3][-1][2]))
        for sp in spans:
            if len(sp) >= 3:
                self.sites.append({"kind": "seq_chain", "terms": sp, "rule": self.cur_rule, "modifier": self.cur_mod, "ctx": ctx})
        if len(spans) >= 3 and all(spans):
            self.sites.append({"kind": "alt_chain", "terms": [(sp[0][0], sp[-1][1]) for sp in spans], "rule": self.cur_rule, "modifier": self.cur_mod, "ctx": ctx})
        seqs = [flat("seq", a) for a in alts]
        self.depth -= 1
        return flat("alt", seqs)

    def term(self, p, ctx: str):
        ch = list(p[3])
        i = 0
        tag = None
        if ch[i][0] == "tag_id":
            tag = self.txt(ch[i])[1:]
            i += 2
            self.features.add("tag")
        pre = []
        while ch[i][0] in ("positive_predicate_operator", "negative_predicate_operator"):
            pre.append(ch[i][0])
            i += 1
        node_start = ch[i][1]
        node, i, node_kind = self.node(ch, i, ctx)
        node_end = ch[i - 1][2]
        npost = 0
        while i < len(ch):
            k = ch[i][0]
            nums = [int(self.txt(c)) for c in ch[i][3] if c[0] == "number"]
            if any(n > MAX_COUNT for n in nums):
                raise OutOfScope("repetition count beyond the oracle's bound")
            if k == "optional_operator":
                node = ("opt", node)
            elif k == "repeat_operator":
                node = ("star", node)
            elif k == "repeat_once_operator":
                node = ("plus", node)
            elif k == "repeat_exact":
                node = ("exact", node, nums[0])
            elif k == "repeat_min":
                node = ("min", node, nums[0])
            elif k == "repeat_max":
                node = ("max", node, nums[0])
            elif k == "repeat_min_max":
                node = ("minmax", node, nums[0], nums[1])
            else:
                raise ValueError(k)
            self.features.add("postfix:" + k)
            npost += 1
            i += 1
        if npost > 1:
            self.features.add("stacked_postfix")
        if len(pre) > 1:
            self.features.add("prefix_chain")
            if len(set(pre)) > 1 or pre[0].startswith("positive"):
                self.features.add("mixed_or_positive_prefix_chain")
        for op in reversed(pre):
            node = ("and" if op.startswith("pos") else "not", node)
        if tag is not None:
            if npost:
                self.features.add("tag_on_term_with_postfix")
            if node_kind in ("string", "insensitive_string", "builtin") and not pre and not npost:
                self.features.add("tag_on_untaggable_node")
            node = ("tag", tag, node)
        self.sites.append(
            {
                "kind": "term", "span": (p[1], p[2]), "tight_span": (ch[0][1], ch[-1][2]), "node_span": (node_start, node_end), "rule": self.cur_rule, "modifier": self.cur_mod,
                "ctx": ctx, "tagged": tag is not None, "prefix": len(pre), "postfix": npost, "node_kind": node_kind,
            }
        )
        return node

    def node(self, ch, i, ctx):
        c = ch[i]
        k = c[0]
        if k == "opening_paren":
            inner = self.expression(ch[i + 1], ctx)
            self.features.add("group")
            return ("group", inner), i + 3, "group"
        if k == "_push_literal":
            self.features.add("push_literal")
            return ("pushlit", self.string(c[3][1])), i + 1, "push_literal"
        if k == "_push":
            self.features.add("push")
            return ("push", self.expression(c[3][1], "push")), i + 1, "push"
        if k == "peek_slice":
            seen_op = False
            a = b = None
            for x in c[3]:
                if x[0] == "range_operator":
                    seen_op = True
                elif x[0] == "integer":
                    if seen_op:
                        b = int(self.txt(x))
                    else:
                        a = int(self.txt(x))
            self.features.add("peek_slice")
            return ("slice", a, b), i + 1, "peek_slice"
        if k == "identifier":
            nm = self.txt(c)
            n = ("ref", nm) if nm in self.defined else ident_node(nm)
            # (a shadowed built-in name is still bound to the shared built-in object while python-pest parses, see D-F12)
            return n, i + 1, ("builtin" if n[0] in ("any", "soi", "builtin", "newline") or nm in builtin_names() - {"EOI"} else "identifier")
        if k == "string":
            return ("str", self.string(c)), i + 1, "string"
        if k == "insensitive_string":
            self.features.add("insensitive_string")
            return ("ci", self.string(c[3][0])), i + 1, "insensitive_string"
        if k == "range":
            cs = [x for x in c[3] if x[0] == "character"]
            self.features.add("range")
            vals = []
            for x in cs:
                raw = self.txt(x)[1:-1]
                if raw.startswith("\\") and len(raw) > 1:
                    self.features.add("escape_in_char")
                vals.append(unescape(raw) if len(raw) > 1 else raw)
            return ("range", vals[0], vals[1]), i + 1, "range"
        raise ValueError(k)

    def string(self, p) -> str:
        raw = self.txt(p)[1:-1]
        if "\\" in raw:
            self.features.add("escape_in_string")
        return unescape(raw)


class MetaOracle:
    def __init__(self, step_limit: int = 30_000_000):
        self.ref = Ref(META)
        self.ref.STEP_LIMIT = step_limit
        self.rule_hits: dict[str, int] = {}

    def pairs(self, text: str):
        """None when the text is not a pest v2 grammar; raises OutOfScope when undecidable here."""
        try:
            return self.ref.parse("grammar_rules", text)
        except Abstain as a:
            raise OutOfScope(str(a)) from None
        except RecursionError:
            raise OutOfScope("oracle recursion limit") from None

    def parse(self, text: str):
        """-> None (reject) or (structure dict, features set, sites list)."""
        prs = self.pairs(text)
        if prs is None:
            return None
        d = Denoter(text)
        g = d.grammar(prs)
        self._count(prs)
        return g, d.features, d.sites

    def _count(self, prs) -> None:
        stack = list(prs)
        while stack:
            p = stack.pop()
            self.rule_hits[p[0]] = self.rule_hits.get(p[0], 0) + 1
            stack.extend(p[3])


def structure_as_rules(g: dict) -> dict:
    """structure -> {name: (modifier, expr)} (later definitions win, as in every PEG loader)."""
    return {r["name"]: (r["modifier"], r["expr"]) for r in g["rules"]}


def strip_groups_and_tags(e):
    """For the fix-point: the bootstrap literal keeps groups; tags never occur in meta.pest."""
    return e


# ----------------------------------------------------------------------------------------
# self-test

FACTS_ACCEPT = [
    "", " ", "// only a comment", "/* block /* nested */ */", "//! grammar doc\n", "a = { \"x\" }", "a={b}b={\"\"}", "a = _{ b }", "a = @{ b }",
    "a = ${ b }", "a = !{ b }", 'a = { "x"*? }', 'a = { &!"x" }', 'a = { !&"x" }', 'a = { &&"x" }', "a = { '\\n'..'\\r' }", "a = { #t = b }",
    "a = { POPPY }", "a = { PEEKER ~ DROPS }", "a = { PEEK [1..2] }", "a = { PEEK[..] }", "a = { PEEK[-1..] }", "a = { PEEK[..-01] }", 'a = { ^ "x" }',
    'a = { "\\0" ~ "\\\'" }', 'a = { "x" }\n/// doc', "/// d1\n/// d2\na = { b }", "a = { | b | c }", "a = { b{2} ~ c{1,} ~ d{,3} ~ e{1, 2} ~ f{ 2 } }",
    "a = { PUSH(b) ~ PUSH_LITERAL(\"x\") ~ POP ~ PEEK ~ DROP ~ PEEK_ALL ~ POP_ALL }", "a = { 'a' .. 'z' }", "a = { \"\\u{41}\" ~ \"\\u{1F600}\" ~ \"\\u{123}\" ~ \"\\x41\" }",
    "a = { \"multi\nline\" }", "a = { ''' .. 'a' }", "a = { (b) }", "a = { ((b | c) ~ d)* }", "a = { #_t1 = (b ~ c)+ }", "a = { b /* c */ ~ // x\n c }",
    "a\n=\n{\nb\n}", "a = {b}\r\nb = {c}", "_a = { _ }", "a = { '\\''..'\\\\' }", "a = { \"\\\\\" }", "a = { '\\x41'..'\\u{5A}' }", "a = { !b* }", "a = { b ~ c | d ~ e }",
]
FACTS_REJECT = [
    "a = {", "a", "a = { }", "a = { \"x }", "a = { PUSHER }", "a = { 'a'xy'b' }", "a = { b ~ }", "a = { ~ b }", "a = { b | }", "= { b }", "a = b", "a = { b } }",
    "a = { 'ab'..'c' }", "a = { \"\\q\" }", "a = { \"\\x4\" }", "a = { \"\\u{1}\" }", "a = { \"\\u{1234567}\" }", "a = { b{} }", "a = { b{,} }", "a = { b{1,2,3} }",
    "a = { PEEK[1] }", "a = { PEEK[-0..] }", "a = { # = b }", "a = { #1 = b }", "a = { b }\n//! late grammar doc", "a = { b /// doc\n }", "a = { PUSH_LITERAL(b) }",
    "a = { PUSH() }", "a = { ^b }", "a = { b ? ? ! }", "a = %{ b }", "1a = { b }", "a = { b }\rb = { c }", "PUSHx = { b }", "a = { 'a'. .'b' }", "/* unterminated",
    "a = { \"x\" ", "a = { '\\'..'a' }", "a = { 'a'..'\\' ? }",
]
FACTS_STRUCT = [
    ("a = { !b* }", ("not", ("star", ("ref", "b")))),
    ("a = { &!b }", ("and", ("not", ("ref", "b")))),
    ("a = { b*? }", ("opt", ("star", ("ref", "b")))),
    ("a = { b ~ c | d ~ e }", ("alt", [("seq", [("ref", "b"), ("ref", "c")]), ("seq", [("ref", "d"), ("ref", "e")])])),
    ("a = { b ~ (c | d) }", ("seq", [("ref", "b"), ("group", ("alt", [("ref", "c"), ("ref", "d")]))])),
    ("a = { #t = b+ }", ("tag", "t", ("plus", ("ref", "b")))),
    ("a = { #t = !b }", ("tag", "t", ("not", ("ref", "b")))),
    ("a = { PEEK[1..-2] }", ("slice", 1, -2)),
    ("a = { PEEK[..] ~ PEEK }", ("seq", [("slice", None, None), ("peek",)])),
    ("a = { b{2} ~ c{1,} ~ d{,3} ~ e{1,2} }", ("seq", [("exact", ("ref", "b"), 2), ("min", ("ref", "c"), 1), ("max", ("ref", "d"), 3), ("minmax", ("ref", "e"), 1, 2)])),
    ('a = { "\\n\\t\\\\\\"\\\'\\0\\x41\\u{1F600}" }', ("str", "\n\t\\\"'\0A\U0001f600")),
    ("a = { '\\x41'..'\\u{5A}' }", ("range", "A", "Z")),
    ("a = { ^\"Ab\" ~ ANY ~ SOI ~ EOI ~ ASCII_DIGIT ~ NEWLINE }", ("seq", [("ci", "Ab"), ("any",), ("soi",), ("eoi",), ("builtin", "ASCII_DIGIT"), ("newline",)])),
    ("a = { PUSH(b ~ c) ~ PUSH_LITERAL(\"x\") }", ("seq", [("push", ("seq", [("ref", "b"), ("ref", "c")])), ("pushlit", "x")])),
    ("a = { | b | c }", ("alt", [("ref", "b"), ("ref", "c")])),
]


def selftest() -> None:
    import sys

    sys.setrecursionlimit(max(sys.getrecursionlimit(), 20000))
    o = MetaOracle()
    path = os.path.join(REPO, "tests", "grammars", "meta.pest")
    with open(path, encoding="utf-8") as fd:
        text = fd.read()
    r = o.parse(text)
    assert r is not None, "the meta-grammar literal rejects tests/grammars/meta.pest"
    got = structure_as_rules(r[0])
    assert list(got) == list(META), "fix-point: rule names/order differ"
    for name in META:
        assert got[name] == (META[name][0], _norm(META[name][1])), f"fix-point broken at rule {name}: {got[name]} != {META[name]}"
    files = sorted(glob.glob(os.path.join(REPO, "tests", "grammars", "*.pest")) + glob.glob(os.path.join(REPO, "examples", "*", "*.pest")))
    assert len(files) >= 10, files
    for f in files:
        with open(f, encoding="utf-8") as fd:
            assert o.parse(fd.read()) is not None, f"oracle rejects bundled grammar {f}"
    for t in FACTS_ACCEPT:
        assert o.parse(t) is not None, f"oracle rejects valid pest: {t!r}"
    for t in FACTS_REJECT:
        assert o.parse(t) is None, f"oracle accepts invalid pest: {t!r}"
    for t, want in FACTS_STRUCT:
        g = o.parse(t)
        assert g is not None and g[0]["rules"][0]["expr"] == want, f"structure of {t!r}: {g and g[0]['rules'][0]['expr']} != {want}"
    g = o.parse("//! G1\n//!G2\n/// d1\n///  d2\na = { b }\n/// t\n")
    assert g[0]["doc"] == ["G1", "G2"] and g[0]["rules"][0]["doc"] == ["d1", " d2"] and g[0]["trailing_doc"] == ["t"], g[0]


def _norm(e):
    """n-ary flattening of directly nested seq/alt (the literal was produced by a flattening loader)."""
    k = e[0]
    if k in ("seq", "alt"):
        return flat(k, [_norm(x) for x in e[1]])
    if k in ("opt", "star", "plus", "and", "not", "push", "group"):
        return (k, _norm(e[1]))
    if k in ("exact", "min", "max"):
        return (k, _norm(e[1]), e[2])
    if k == "minmax":
        return (k, _norm(e[1]), e[2], e[3])
    if k == "tag":
        return ("tag", e[1], _norm(e[2]))
    return e
