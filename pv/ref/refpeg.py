"""Reference PEG evaluator for pest semantics (the oracle of C03/C04/C05 and friends).

Written from pest's documented semantics (the pest book, pest's generator.rs and
ParserState), NOT from python-pest's code.  State is immutable: the user stack is a tuple
and a failed alternative simply returns None, so backtracking is correct by construction.

AST (tuples):
  ("str", s) ("ci", s) ("range", a, b) ("builtin", NAME) ("any",) ("soi",) ("eoi",)
  ("ref", name) ("seq", [e..]) ("alt", [e..]) ("opt", e) ("star", e) ("plus", e)
  ("exact", e, n) ("min", e, n) ("max", e, n) ("minmax", e, m, n) ("and", e) ("not", e)
  ("push", e) ("pushlit", s) ("peek",) ("peekall",) ("pop",) ("popall",) ("drop",)
  ("slice", a, b) ("tag", name, e) ("group", e)
Rules: name -> (modifier, expr) with modifier in "", "_", "@", "$", "!".

Result of parse(): None (no match) or a list of pairs (name, start, end, [children]).

The evaluator ABSTAINS (raises Abstain) wherever pest and the property statements leave the
behaviour undefined: an iteration or a trivia rule that matched empty, out-of-range
PEEK[a..b] bounds, non-ASCII text under a case-insensitive literal, step budget exceeded.
"""

from __future__ import annotations

import collections

NON, ATOMIC, COMPOUND = 0, 1, 2

BUILTIN_SETS = {
    "ASCII_DIGIT": lambda c: "0" <= c <= "9",
    "ASCII_NONZERO_DIGIT": lambda c: "1" <= c <= "9",
    "ASCII_BIN_DIGIT": lambda c: "0" <= c <= "1",
    "ASCII_OCT_DIGIT": lambda c: "0" <= c <= "7",
    "ASCII_HEX_DIGIT": lambda c: "0" <= c <= "9" or "a" <= c <= "f" or "A" <= c <= "F",
    "ASCII_ALPHA_LOWER": lambda c: "a" <= c <= "z",
    "ASCII_ALPHA_UPPER": lambda c: "A" <= c <= "Z",
    "ASCII_ALPHA": lambda c: "a" <= c <= "z" or "A" <= c <= "Z",
    "ASCII_ALPHANUMERIC": lambda c: "0" <= c <= "9" or "a" <= c <= "z" or "A" <= c <= "Z",
    "ASCII": lambda c: c <= "\x7f",
}


def _gc(prefix: str):
    """Unicode general-category rule, from CPython's tables; abstains outside U+0000-024F (blocks whose categories have been
    the same for decades, so the version of anybody's Unicode tables cannot matter)."""
    import unicodedata

    def f(c: str) -> bool:
        if c > "\u024f":
            raise Abstain("unicode rule on a character outside U+0000-024F")
        return unicodedata.category(c).startswith(prefix)

    return f


BUILTIN_SETS.update({"LETTER": _gc("L"), "UPPERCASE_LETTER": _gc("Lu"), "LOWERCASE_LETTER": _gc("Ll"), "NUMBER": _gc("N"), "DECIMAL_NUMBER": _gc("Nd"), "PUNCTUATION": _gc("P")})

REPS = ("plus", "exact", "min", "max", "minmax")
LEAVES = (
    "str", "ci", "range", "builtin", "any", "soi", "eoi", "ref", "pushlit", "peek",
    "peekall", "pop", "popall", "drop", "slice", "newline",
)


class Abstain(Exception):
    pass


def unroll(e):
    """pest's unroller: e+ -> e ~ e*, e{n} -> e ~ .. ~ e, e{n,} -> e{n} ~ e*, e{,n} -> e? ~ .. , e{m,n}."""
    k = e[0]
    if k in LEAVES:
        return e
    if k in ("seq", "alt"):
        return (k, [unroll(x) for x in e[1]])
    if k in ("opt", "star", "and", "not", "push", "group"):
        return (k, unroll(e[1]))
    if k == "tag":
        return ("tag", e[1], unroll(e[2]))
    x = unroll(e[1])
    if k == "plus":
        return ("seq", [x, ("star", x)], "plus")
    if k == "exact":
        return ("seq", [x] * e[2], "exact")
    if k == "min":
        return ("seq", [x] * e[2] + [("star", x)], "min")
    if k == "max":
        return ("seq", [("opt", x)] * e[2], "max")
    if k == "minmax":
        return ("seq", [x] * e[2] + [("opt", x)] * (e[3] - e[2]), "minmax")
    raise ValueError(k)


class Ref:
    STEP_LIMIT = 300000

    def __init__(self, rules: dict):
        self.rules = {n: (m, unroll(x)) for n, (m, x) in rules.items()}
        self.has_ws = "WHITESPACE" in self.rules
        self.has_cm = "COMMENT" in self.rules
        self.steps = 0
        self.ev: collections.Counter[str] = collections.Counter()
        self.depth = 0
        self.maxdepth = 0
        self.stack_changes = 0
        self.text = ""

    # ------------------------------------------------------------------ entry

    def parse(self, rule: str, text: str, start: int = 0):
        self.text = text
        self.steps = 0
        self.depth = 0
        self.maxdepth = 0
        self.stack_changes = 0
        self.ev = collections.Counter()
        r = self.rule(rule, start, (), NON, False)
        if r is None:
            return None
        return r[2]

    # ------------------------------------------------------------------ rules

    def rule(self, name, pos, stack, atom, look):
        if name == "EOI":
            if pos == len(self.text):
                return pos, stack, ([] if (look or atom == ATOMIC) else [("EOI", pos, pos, [])])
            return None
        mod, expr = self.rules[name]
        self.depth += 1
        if self.depth > self.maxdepth:
            self.maxdepth = self.depth
        emit = not look and atom != ATOMIC and mod != "_"
        inner = atom
        if mod == "@":
            inner = ATOMIC
        elif mod == "$":
            inner = COMPOUND
            emit = not look
            if atom == ATOMIC:
                self.ev["compound_rule_visible_inside_atomic"] += 1
        elif mod == "!":
            inner = NON
            emit = not look
            if atom != NON:
                self.ev["nonatomic_rule_reenabled_trivia"] += 1
        if name in ("WHITESPACE", "COMMENT") and mod != "$":
            # pest wraps the body in Atomicity::Atomic unless the rule is declared compound-atomic
            inner = ATOMIC
        r = self.evl(expr, pos, stack, inner, look)
        self.depth -= 1
        if r is None:
            return None
        p2, st2, prs = r
        if emit:
            self.ev["pairs_emitted"] += 1
            if mod == "@" and prs:
                self.ev["atomic_rule_kept_nested_pairs"] += 1
            return p2, st2, [(name, pos, p2, prs)]
        if not look and mod != "_" and atom == ATOMIC:
            self.ev["pairs_hidden_by_atomic"] += 1
        return p2, st2, prs

    def skip(self, pos, stack, atom, look):
        if atom != NON or not (self.has_ws or self.has_cm):
            return pos, stack, []
        out = []
        p0 = pos
        while True:
            if self.has_ws:
                r = self.rule("WHITESPACE", pos, stack, atom, look)
                if r is not None:
                    if r[0] == pos:
                        raise Abstain("empty trivia")
                    pos, stack = r[0], r[1]
                    out += r[2]
                    continue
            if self.has_cm:
                r = self.rule("COMMENT", pos, stack, atom, look)
                if r is not None:
                    if r[0] == pos:
                        raise Abstain("empty trivia")
                    pos, stack = r[0], r[1]
                    out += r[2]
                    continue
            break
        if pos > p0:
            self.ev["skip_consumed"] += 1
        return pos, stack, out

    # ------------------------------------------------------------------ expressions

    def evl(self, e, pos, stack, atom, look):  # noqa: PLR0911, PLR0912, PLR0915
        self.steps += 1
        if self.steps > self.STEP_LIMIT:
            raise Abstain("steps")
        t = self.text
        k = e[0]
        if k == "str":
            return (pos + len(e[1]), stack, []) if t.startswith(e[1], pos) else None
        if k == "ref":
            return self.rule(e[1], pos, stack, atom, look)
        if k == "seq":
            out = []
            p, st = pos, stack
            for i, x in enumerate(e[1]):
                if i:
                    p1 = p
                    p, st, tp = self.skip(p, st, atom, look)
                    out += tp
                r = self.evl(x, p, st, atom, look)
                if r is None:
                    if i and p > p1:
                        self.ev["skip_undone_by_failing_sequence"] += 1
                    return None
                if i and p > p1 and r[0] == p:
                    self.ev["skip_before_zero_width_element"] += 1
                p, st = r[0], r[1]
                out += r[2]
            return p, st, out
        if k == "alt":
            for i, x in enumerate(e[1]):
                sc = self.stack_changes
                r = self.evl(x, pos, stack, atom, look)
                if r is not None:
                    if i:
                        self.ev["choice_took_later_alternative"] += 1
                    return r
                if self.stack_changes != sc:
                    self.ev["stack_change_undone_by_failed_alternative"] += 1
            return None
        if k == "opt":
            sc = self.stack_changes
            r = self.evl(e[1], pos, stack, atom, look)
            if r is None:
                if self.stack_changes != sc:
                    self.ev["stack_change_undone_by_failed_optional"] += 1
                return pos, stack, []
            return r
        if k == "star":
            sc = self.stack_changes
            r = self.evl(e[1], pos, stack, atom, look)
            if r is None:
                if self.stack_changes != sc:
                    self.ev["stack_change_undone_by_failed_iteration"] += 1
                return pos, stack, []
            if r[0] == pos and r[1] == stack:
                raise Abstain("empty iteration")
            p, st, out = r[0], r[1], list(r[2])
            n = 1
            while True:
                sc = self.stack_changes
                p2, st2, tp = self.skip(p, st, atom, look)
                r = self.evl(e[1], p2, st2, atom, look)
                if r is None:
                    if p2 > p:
                        self.ev["skip_given_back_after_last_iteration"] += 1
                    if self.stack_changes != sc:
                        self.ev["stack_change_undone_by_failed_iteration"] += 1
                    self.ev["star_iterations"] += n
                    return p, st, out
                if r[0] == p and r[1] == st:
                    raise Abstain("empty iteration")
                if p2 > p:
                    self.ev["skip_between_iterations"] += 1
                p, st = r[0], r[1]
                out += tp + r[2]
                n += 1
        if k == "range":
            return (pos + 1, stack, []) if pos < len(t) and e[1] <= t[pos] <= e[2] else None
        if k == "any":
            return (pos + 1, stack, []) if pos < len(t) else None
        if k == "ci":
            s = e[1]
            seg = t[pos : pos + len(s)]
            if len(seg) != len(s):
                return None
            # pest: eq_ignore_ascii_case - only ASCII letters fold, every other character must be equal
            for a, b in zip(seg, s):
                if a != b and not (a.isascii() and b.isascii() and a.lower() == b.lower()):
                    return None
            return pos + len(s), stack, []
        if k == "builtin":
            return (pos + 1, stack, []) if pos < len(t) and BUILTIN_SETS[e[1]](t[pos]) else None
        if k == "newline":
            if t.startswith("\n", pos):
                return pos + 1, stack, []
            if t.startswith("\r\n", pos):
                return pos + 2, stack, []
            if t.startswith("\r", pos):
                return pos + 1, stack, []
            return None
        if k == "soi":
            return (pos, stack, []) if pos == 0 else None
        if k == "eoi":
            return self.rule("EOI", pos, stack, atom, look)
        if k == "group":
            return self.evl(e[1], pos, stack, atom, look)
        if k == "tag":
            return self.evl(e[2], pos, stack, atom, look)
        if k == "and":
            sc = self.stack_changes
            r = self.evl(e[1], pos, stack, atom, True)
            if self.stack_changes != sc:
                self.ev["stack_change_undone_by_predicate"] += 1
            return (pos, stack, []) if r is not None else None
        if k == "not":
            sc = self.stack_changes
            r = self.evl(e[1], pos, stack, atom, True)
            if self.stack_changes != sc:
                self.ev["stack_change_undone_by_predicate"] += 1
            return (pos, stack, []) if r is None else None
        if k == "push":
            r = self.evl(e[1], pos, stack, atom, look)
            if r is None:
                return None
            self.stack_changes += 1
            self.ev["stack.push"] += 1
            return r[0], r[1] + (t[pos : r[0]],), r[2]
        if k == "pushlit":
            self.stack_changes += 1
            self.ev["stack.push_literal"] += 1
            return pos, stack + (e[1],), []
        if k == "peek":
            if not stack:
                self.ev["stack.peek_on_empty"] += 1
                return None
            s = stack[-1]
            self.ev["stack.peek"] += 1
            return (pos + len(s), stack, []) if t.startswith(s, pos) else None
        if k == "pop":
            if not stack:
                self.ev["stack.pop_on_empty"] += 1
                return None
            s = stack[-1]
            if t.startswith(s, pos):
                self.stack_changes += 1
                self.ev["stack.pop"] += 1
                return pos + len(s), stack[:-1], []
            self.ev["stack.pop_failed_to_match"] += 1
            return None
        if k == "drop":
            if not stack:
                self.ev["stack.drop_on_empty"] += 1
                return None
            self.stack_changes += 1
            self.ev["stack.drop"] += 1
            return pos, stack[:-1], []
        if k in ("peekall", "popall"):
            p = pos
            for s in reversed(stack):
                if not t.startswith(s, p):
                    self.ev[f"stack.{k}_failed"] += 1
                    return None
                p += len(s)
            self.ev[f"stack.{k}" + ("_empty" if not stack else "")] += 1
            if k == "popall" and stack:
                self.stack_changes += 1
            return p, (stack if k == "peekall" else ()), []
        if k == "slice":
            a, b = e[1], e[2]
            n = len(stack)

            def norm(i):
                if i > n:
                    raise Abstain("slice bound out of range")
                if i >= 0:
                    return i
                if n + i < 0:
                    raise Abstain("slice bound out of range")
                return n + i

            lo = norm(a) if a is not None else 0
            hi = norm(b) if b is not None else n
            if lo > hi:
                raise Abstain("slice bounds reversed")
            p = pos
            for s in stack[lo:hi]:
                if not t.startswith(s, p):
                    self.ev["stack.slice_failed"] += 1
                    return None
                p += len(s)
            self.ev["stack.slice"] += 1
            return p, stack, []
        raise ValueError(k)


# ----------------------------------------------------------------------------------------
# static analyses on the tuple AST


STACK_MAY_HOLD_EMPTY = [False]
  # set by generators that push matches of nullable expressions


def nullable(e, null_of_rule) -> bool:
    """Conservative: True if e *may* match without consuming input."""
    k = e[0]
    if k in ("str", "ci"):
        return e[1] == ""
    if k in ("range", "any", "builtin", "newline"):
        return False
    if k in ("soi", "eoi", "opt", "star", "and", "not", "pushlit", "peekall", "popall", "drop", "slice", "max"):
        return True
    if k in ("peek", "pop"):
        # unless told otherwise the generators only ever push non-empty strings
        return STACK_MAY_HOLD_EMPTY[0]
    if k == "ref":
        return null_of_rule(e[1])
    if k == "seq":
        return all(nullable(x, null_of_rule) for x in e[1])
    if k == "alt":
        return any(nullable(x, null_of_rule) for x in e[1])
    if k == "exact":
        return e[2] == 0 or nullable(e[1], null_of_rule)
    if k in ("plus", "push", "group"):
        return nullable(e[1], null_of_rule)
    if k == "tag":
        return nullable(e[2], null_of_rule)
    if k in ("min", "minmax"):
        return e[2] == 0 or nullable(e[1], null_of_rule)
    raise ValueError(k)


def walk(e):
    yield e
    k = e[0]
    if k in ("seq", "alt"):
        for x in e[1]:
            yield from walk(x)
    elif k in ("opt", "star", "plus", "and", "not", "push", "group", "exact", "min", "max", "minmax"):
        yield from walk(e[1])
    elif k == "tag":
        yield from walk(e[2])


def features(rules: dict) -> set[str]:
    f: set[str] = set()
    for name, (mod, expr) in rules.items():
        if mod:
            f.add("mod" + mod)
        if name in ("WHITESPACE", "COMMENT"):
            f.add(name)
        for n in walk(expr):
            f.add(n[0])
    return f


def uses_soi(rules: dict) -> bool:
    return any(n[0] == "soi" for _, (_, x) in rules.items() for n in walk(x))


# ----------------------------------------------------------------------------------------
# printing to pest grammar text

_ESC = {"\\": "\\\\", '"': '\\"', "\n": "\\n", "\t": "\\t", "\r": "\\r"}


def esc(s: str) -> str:
    out = []
    for ch in s:
        if ch in _ESC:
            out.append(_ESC[ch])
        elif ch < " " or ch == "\x7f":
            out.append("\\x%02X" % ord(ch))
        else:
            out.append(ch)
    return "".join(out)


def esc_char(c: str) -> str:
    if c == "'":
        return "\\'"
    if c == '"':
        return '"'
    return esc(c)


_SUFFIX = {"opt": "?", "star": "*", "plus": "+"}


def _suffix(e) -> str:
    k = e[0]
    if k in _SUFFIX:
        return _SUFFIX[k]
    if k == "exact":
        return "{%d}" % e[2]
    if k == "min":
        return "{%d,}" % e[2]
    if k == "max":
        return "{,%d}" % e[2]
    return "{%d,%d}" % (e[2], e[3])


POSTFIX = ("opt", "star", "plus", "exact", "min", "max", "minmax")


def show(e, top: bool = True) -> str:  # noqa: PLR0911, PLR0912
    k = e[0]
    if k in POSTFIX:
        inner = e[1]
        if inner[0] in ("and", "not", "tag") or inner[0] in POSTFIX:
            return "(" + show(inner, True) + ")" + _suffix(e)
        return show(inner, False) + _suffix(e)
    if k == "str":
        return f'"{esc(e[1])}"'
    if k == "ci":
        return f'^"{esc(e[1])}"'
    if k == "range":
        return f"'{esc_char(e[1])}'..'{esc_char(e[2])}'"
    if k == "builtin":
        return e[1]
    if k == "newline":
        return "NEWLINE"
    if k == "any":
        return "ANY"
    if k == "soi":
        return "SOI"
    if k == "eoi":
        return "EOI"
    if k == "ref":
        return e[1]
    if k == "seq":
        s = " ~ ".join(show(x, False) for x in e[1])
        return s if top else f"({s})"
    if k == "alt":
        s = " | ".join(show(x, False) for x in e[1])
        return s if top else f"({s})"
    if k == "group":
        return "(" + show(e[1], True) + ")"
    if k == "tag":
        inner = e[2]
        body = show(inner, False)
        return f"#{e[1]} = {body}"
    if k in ("and", "not"):
        op = "&" if k == "and" else "!"
        if e[1][0] == "tag":  # a tag must precede the prefix operators of its term
            return op + "(" + show(e[1], True) + ")"
        return op + show(e[1], False)
    if k == "push":
        return f"PUSH({show(e[1])})"
    if k == "pushlit":
        return f'PUSH_LITERAL("{esc(e[1])}")'
    if k == "peek":
        return "PEEK"
    if k == "peekall":
        return "PEEK_ALL"
    if k == "pop":
        return "POP"
    if k == "popall":
        return "POP_ALL"
    if k == "drop":
        return "DROP"
    if k == "slice":
        return "PEEK[%s..%s]" % ("" if e[1] is None else e[1], "" if e[2] is None else e[2])
    raise ValueError(k)


def grammar_text(rules: dict) -> str:
    return "\n".join(f"{n} = {m}{{ {show(x)} }}" for n, (m, x) in rules.items())
