"""Common scaffolding for engine-based checks."""

from __future__ import annotations

import random

from pv import engine
from pv.common import Run, run_workers, seed_int  # noqa: F401  (seed_int is re-exported)
from pv.gen import grammars as G


def random_shards(prop, run: Run, judges, *, profile, count, cap, maxlen, extra=None, n=16, modes=("I", "GI", "O", "GO")):
    out = []
    for j in range(n):
        d = {
            "prop": prop, "judges": judges, "modes": list(modes), "source": "random", "profile": profile,
            "seed": seed_int(prop, run.seed, profile, j), "count": count, "cap": cap, "maxlen": maxlen, "sample_at": 400 * j,
        }
        d.update(extra or {})
        out.append(d)
    return out


def matrix_shards(prop, run: Run, judges, *, sample, cap, maxlen=4, flt=None, extra=None, n=16, modes=("I", "GI", "O", "GO")):
    idx = list(range(G.matrix_size()))
    random.Random(seed_int(prop, run.seed, "matrix")).shuffle(idx)
    if sample:
        idx = idx[:sample]
    out = []
    for j in range(n):
        d = {
            "prop": prop, "judges": judges, "modes": list(modes), "source": "matrix", "indices": idx[j::n], "matrix_filter": flt,
            "seed": seed_int(prop, run.seed, "mx", j), "cap": cap, "maxlen": maxlen, "extra_alpha": " #", "sample_at": 10**9,
        }
        d.update(extra or {})
        out.append(d)
    return out


def scale_shards(prop, run: Run, judges, *, extra=None, n=16, modes=("I", "GI", "O", "GO")):
    """The scale family (same shapes at growing size), all of it on both tiers."""
    idx = list(range(G.scale_size()))
    random.Random(seed_int(prop, run.seed, "scale")).shuffle(idx)
    out = []
    for j in range(n):
        d = {
            "prop": prop, "judges": judges, "modes": list(modes), "source": "scale", "indices": idx[j::n], "seed": seed_int(prop, run.seed, "sc", j),
            "cap": 30, "maxlen": 2, "sample_at": 10**9,
        }
        d.update(extra or {})
        out.append(d)
    return out


def execute(run: Run, shards, timeout=None):
    run_workers("pv.engine", "worker", shards, timeout_s=timeout or run.pick(900, 7200), acc=run.acc)


def replay(prop, path, judges):
    return engine.replay_violation(prop, path, judges)
