"""C08 - meaning-preserving grammar rewrites leave every parse result unchanged (metamorphic).

Rewrites are applied to the grammar TEXT by span splicing (spans come from the meta-grammar
oracle), so the whole pipeline - scanner, grammar parser, optimizer, generator - is
exercised.  The oracle is the unrewritten grammar's own result in the same execution mode.
"""

from __future__ import annotations

import random

from pv import harvest, monitor
from pv.checks.bundled import mutants
from pv.common import Acc, Run, load_replay, run_workers, seed_int
from pv.modes import Modes, brief, run
from pv.ref import metafront

NEVER = '"\\u{E000}"'
KINDS = ["parens", "reassoc", "extract", "dup_choice", "never_after", "never_neg"]
GRAMMARS = ["json_tests", "json_example", "toml", "sql", "http", "jsonpath", "calculator", "calculator_prec", "lists", "ini", "csv", "surround"]


class HarnessError(Exception):
    pass


def apply_rewrite(text: str, sites: list[dict], rnd: random.Random, kind: str, counter: list[int], focus=None, exact=None):
    """-> (new_text, description) or None when no site of this kind exists."""
    if kind == "reassoc":
        chains = [s for s in sites if s["kind"] in ("seq_chain", "alt_chain")]
        if not chains:
            return None
        c = rnd.choice(chains)
        n = len(c["terms"])
        i = rnd.randrange(0, n - 1)
        j = rnd.randrange(i + 1, n)
        if i == 0 and j == n - 1:
            j -= 1
            if j == i:
                i, j = 0, 1
        a, b = c["terms"][i][0], c["terms"][j][1]
        return text[:a] + "(" + text[a:b] + ")" + text[b:], {"kind": kind, "chain": c["kind"], "rule": c["rule"], "wrapped": text[a:b][:60]}
    terms = [s for s in sites if s["kind"] == "term" and not s["tagged"] and s["rule"] != ""]
    if focus is not None:
        # nest: prefer a site inside the region that the previous rewrite produced
        inside = [s for s in terms if focus[0] <= s["tight_span"][0] and s["tight_span"][1] <= focus[1]]
        if inside:
            terms = inside
    if not terms:
        return None
    # sites that touch the user stack are where a lost or doubled undo becomes visible: weight them up
    weights = [6 if any(k in text[s["tight_span"][0] : s["tight_span"][1]] for k in ("PUSH", "POP", "DROP", "PEEK")) else 1 for s in terms]
    t = rnd.choices(terms, weights)[0]
    if exact is not None:
        cands = [s for s in terms if text[s["tight_span"][0] : s["tight_span"][1]] == exact[0]]
        if len(cands) <= exact[1]:
            return None
        t = cands[exact[1]]
    a, b = t["tight_span"]
    body = text[a:b]
    desc = {"kind": kind, "rule": t["rule"], "modifier": t["modifier"], "term": body[:60], "ctx": t["ctx"]}
    desc["at"] = [a, b]
    if kind == "parens":
        new = "(" * rnd.choice([1, 1, 2])
        new = new + body + ")" * len(new)
    elif kind == "extract":
        counter[0] += 1
        name = f"pv_x{counter[0]}"
        desc["fresh_rule"] = name
        return text[:a] + name + text[b:] + f"\n{name} = _{{ {body} }}\n", desc
    elif kind == "dup_choice":
        new = f"({body} | {body})"
    elif kind == "never_after":
        new = f"(({body} ~ {NEVER}) | {body})"
    elif kind == "never_neg":
        new = f"((!({body}) ~ {NEVER}) | {body})"
    else:
        raise ValueError(kind)
    desc["new_span"] = [a, a + len(new)]
    return text[:a] + new + text[b:], desc


def outcome(res):
    """tree or 'failed' (the statement compares parse results, not failure positions)."""
    if res[0] == "ok":
        return res
    if res[0] == "fail":
        return ("failed",)
    return res


def worker(shard: dict) -> dict:  # noqa: PLR0912, PLR0915
    acc = Acc()
    monitor.install()
    rnd = random.Random(shard["seed"])
    key, text = shard["key"], shard["text"]
    oracle = metafront.MetaOracle()
    base = oracle.parse(text)
    if base is None:
        acc.inconclusive.append(f"oracle rejects bundled grammar {key}")
        return acc.dump()
    acc.count("sites.term", sum(1 for s in base[2] if s["kind"] == "term" and not s["tagged"]))
    acc.count("sites.chain", sum(1 for s in base[2] if s["kind"] != "term"))
    md0 = Modes(text)
    objs0 = {}
    for m in ("I", "GI", "O", "GO"):
        o = md0.get(m)
        if o is None:
            acc.inconclusive.append(f"bundled grammar {key} does not build in mode {m}: {md0.errors[m]}")
            return acc.dump()
        if m.startswith("G"):
            monitor.attach(o)
        objs0[m] = o
    cases: list[tuple[str, str]] = []
    seen = set()
    for rule, inp in shard["cases"]:
        cands = [inp] + (mutants(rnd, inp, shard["mutants"]) if len(inp) < 600 else mutants(rnd, inp, 1))
        for c in cands:
            if (rule, c) not in seen and "" not in c:
                seen.add((rule, c))
                cases.append((rule, c))
    cases = cases[: shard["max_cases"]]
    monitor.set_budget(50_000_000)
    base_res = {}
    base_steps = {}
    for rule, inp in cases:
        for m, o in objs0.items():
            base_res[(rule, inp, m)] = outcome(run(o, rule, inp))
            base_steps[(rule, inp, m)] = monitor.last_steps()
    acc.count("inputs", len(cases))
    acc.count("inputs_valid", sum(1 for (r, i) in cases if base_res[(r, i, "I")][0] == "ok"))
    vk: dict = {}
    counter = [0]
    # systematic stratum: at every term that touches the user stack, every ordered PAIR of rewrite kinds nested at that term
    planned: list = [None] * shard["variants"]
    if shard.get("nested_pairs"):
        stack_terms: dict[str, int] = {}
        for st in base[2]:
            if st["kind"] == "term" and not st["tagged"]:
                body = text[st["tight_span"][0] : st["tight_span"][1]]
                if any(k in body for k in ("PUSH", "POP", "DROP", "PEEK")) and len(body) < 80:
                    stack_terms[body] = stack_terms.get(body, 0) + 1
        pairs = [(body, occ, k1, k2) for body, n in sorted(stack_terms.items()) for occ in range(n) for k1 in KINDS for k2 in KINDS if "reassoc" not in (k1, k2)]
        rnd.shuffle(pairs)
        planned = pairs[shard["pair_offset"] :: shard["pair_stride"]][: shard["max_pairs"]]
        acc.count("nested_pair_variants_planned", len(planned))
    for v, plan in enumerate(planned):
        cur = text
        descs = []
        if plan is not None:
            body, occ, k1, k2 = plan
            p1 = oracle.parse(cur)
            r1 = apply_rewrite(cur, p1[2], rnd, k1, counter, None, (body, occ))
            if r1 is None:
                continue
            cur, d1 = r1
            descs.append(d1)
            p2 = oracle.parse(cur)
            if p2 is None:
                acc.inconclusive.append(f"harness produced a text the oracle rejects ({key}): {descs}")
                continue
            r2 = apply_rewrite(cur, p2[2], rnd, k2, counter, d1.get("new_span"), (body, 0))
            if r2 is not None:
                cur, d2 = r2
                d2["nested_in_previous"] = True
                acc.count("rewrites_nested_in_previous_site")
                descs.append(d2)
            nrew = 0
        else:
            nrew = 1 if rnd.random() < 0.6 else rnd.randint(2, 4)
        for _ in range(nrew):
            parsed = oracle.parse(cur)
            if parsed is None:
                acc.inconclusive.append(f"harness produced a text the oracle rejects ({key}): {descs}")
                break
            kind = shard["kinds"][(v + len(descs)) % len(shard["kinds"])] if rnd.random() < 0.7 else rnd.choice(shard["kinds"])
            focus = None
            if descs and "new_span" in descs[-1] and rnd.random() < 0.6:
                focus = descs[-1]["new_span"]
                if kind == "reassoc":
                    kind = rnd.choice([k for k in shard["kinds"] if k != "reassoc"])
            r = apply_rewrite(cur, parsed[2], rnd, kind, counter, focus)
            if r is None:
                continue
            cur, d = r
            if focus is not None:
                d["nested_in_previous"] = True
                acc.count("rewrites_nested_in_previous_site")
            descs.append(d)
        if not descs:
            continue
        try:
            ok = oracle.parse(cur) is not None
        except metafront.OutOfScope:
            acc.count("abstain.out_of_oracle_scope")
            continue
        if not ok:
            acc.inconclusive.append(f"harness produced a text the oracle rejects ({key}): {descs}")
            continue
        acc.count("rewritten_grammars")
        for d in descs:
            acc.count("rewrites." + d["kind"])
        if len(descs) > 1:
            acc.count("rewritten_grammars_with_combined_rewrites")
        md = Modes(cur)
        objs = {}
        for m in ("I", "GI", "O", "GO"):
            o = md.get(m)
            if o is None:
                k = ("load", m)
                if vk.get(k, 0) < 2:
                    vk[k] = vk.get(k, 0) + 1
                    acc.violation("c08", {"what": "rewritten grammar fails to load / generate", "grammar_key": key, "mode": m, "rewrites": descs, "error": list(md.errors[m]), "rewritten_text": cur[-600:]})
                else:
                    acc.nviol += 1
                continue
            if m.startswith("G"):
                monitor.attach(o)
            objs[m] = o
        acc.count("rewritten_grammars_loaded")
        fresh = {d.get("fresh_rule") for d in descs if d.get("fresh_rule")}
        reached = False
        blowups = 0
        for rule, inp in cases:
            for m, o in objs.items():
                # (e | e)-style rewrites legitimately multiply the work, exponentially when nested in recursive rules:
                # a parse that needs more than 12x the original's logical steps is abandoned and not judged (after one such parse the variant is dropped)
                if blowups >= 1:
                    acc.count("abstain.skipped_after_blowup")
                    continue
                monitor.set_budget(12 * base_steps[(rule, inp, m)] + 50_000)
                got = outcome(run(o, rule, inp))
                monitor.set_budget(50_000_000)
                if got[0] == "exc" and got[1] == "BudgetExceeded":
                    acc.count("abstain.rewritten_grammar_needs_over_12x_steps")
                    blowups += 1
                    continue
                acc.count("comparisons")
                want = base_res[(rule, inp, m)]
                if got != want:
                    k = (m, descs[0]["kind"], want[0], got[0])
                    if vk.get(k, 0) < 2:
                        vk[k] = vk.get(k, 0) + 1
                        acc.violation(
                            "c08",
                            {"what": "parse result changed under a meaning-preserving rewrite", "grammar_key": key, "mode": m, "rule": rule, "input": inp, "rewrites": descs,
                             "expected": brief(want)[:500], "observed": brief(got)[:500], "rewritten_text": cur if len(cur) < 3000 else cur[-1500:]},
                        )
                    else:
                        acc.nviol += 1
                elif want[0] == "ok":
                    acc.count("comparisons_of_successful_parses")
            acc.nontrivial(key, v, rule, inp)
        # was the rewritten site actually exercised?  (fresh silent rule entered in mode I / NEVER literal tried)
        if "I" in objs and not blowups and (fresh or any(d["kind"].startswith("never") for d in descs)):
            hits = {"n": 0}
            orig_push = monitor.CountingStack.push
            orig_fail = monitor.MonitoredState.fail

            def push(self, item, _o=orig_push):
                if getattr(item, "name", None) in fresh:
                    hits["n"] += 1
                _o(self, item)

            def fail(self, label, **kw):
                if isinstance(label, str) and "" in label:
                    hits["n"] += 1
                orig_fail(self, label, **kw)

            monitor.CountingStack.push = push
            monitor.MonitoredState.fail = fail
            try:
                for rule, inp in cases[:12]:
                    monitor.set_budget(12 * base_steps[(rule, inp, "I")] + 50_000)
                    run(objs["I"], rule, inp)
                monitor.set_budget(50_000_000)
            finally:
                monitor.CountingStack.push = orig_push
                monitor.MonitoredState.fail = orig_fail
            reached = hits["n"] > 0
            acc.count("rewritten_grammars_probed_for_reach")
            if reached:
                acc.count("rewritten_grammars_whose_site_was_reached")
        if v == 0:
            acc.sample({"grammar": key, "rewrites": descs, "site_reached": reached})
    acc.count("grammars")
    return acc.dump()


def main(tier: str, seed: int) -> int:
    run_ = Run("C08", tier, seed)
    try:
        metafront.selftest()
    except AssertionError as e:
        run_.acc.inconclusive.append(f"meta-grammar oracle self-test failed: {e}")
        return run_.finish(rule="oracle self-test failed", assumptions=[], evaluations_key="comparisons")
    corpus = harvest.build_corpus()
    shards = []
    for key in GRAMMARS:
        g = corpus["grammars"].get(key)
        if not g or not g["cases"]:
            run_.acc.inconclusive.append(f"no corpus for bundled grammar {key}")
            continue
        nsplit = run_.pick(2, 8) if key in ("sql", "toml", "jsonpath") else run_.pick(1, 4)
        for j in range(nsplit):
            shards.append(
                {
                    "key": key, "text": g["text"], "cases": g["cases"], "seed": seed_int("C08", seed, key, j), "variants": run_.pick(26, 120), "kinds": KINDS,
                    "mutants": run_.pick(2, 5), "max_cases": run_.pick(40, 120),
                }
            )
    for key in ("lists", "surround"):
        g = corpus["grammars"].get(key)
        if g and g["cases"]:
            stride = run_.pick(4, 8)
            for j in range(stride):
                shards.append(
                    {
                        "key": key, "text": g["text"], "cases": g["cases"], "seed": seed_int("C08", seed, key, "np", j), "variants": 0, "kinds": KINDS, "mutants": run_.pick(2, 5),
                        "max_cases": run_.pick(30, 80), "nested_pairs": True, "pair_offset": j, "pair_stride": stride, "max_pairs": run_.pick(40, 10**6),
                    }
                )
    run_workers("pv.checks.c08", "worker", shards, timeout_s=run_.pick(900, 7200), acc=run_.acc)
    return run_.finish(
        rule=(
            "bundled grammars JSON x2, TOML, SQL, HTTP, JSONPath, calculator x2, lists, INI, CSV; rewrite sites = every untagged term and every "
            "sequence / choice chain found by the meta-grammar oracle; kinds = redundant parentheses, re-association, extraction to a fresh silent "
            "rule, (e | e), ((e ~ NEVER) | e), ((!e ~ NEVER) | e), singly (70 %) or 2-4 combined with re-parsing in between (so they nest); the "
            "rewritten TEXT is loaded through the whole pipeline and compared, in each of the 4 modes, with the original grammar's result on "
            "corpus inputs (shipped documents, inputs harvested from the repository's tests, seed inputs) and their single-edit mutants. "
            "distinct_nontrivial = distinct (grammar, variant, input) triples compared."
        ),
        assumptions=[
            "NEVER is a literal containing U+E000, which no input contains",
            "tagged terms are not rewritten (the operand of a tag is excluded by rule, not by outcome)",
            "results are compared as tree or 'failed' (failure positions are not part of the statement)",
        ],
        evaluations_key="comparisons",
        floors={"comparisons": 20000, "rewritten_grammars_loaded": 150, "comparisons_of_successful_parses": 3000, "rewritten_grammars_whose_site_was_reached": 20, "grammars": 11},
    )


def replay(path: str) -> int:
    v = load_replay(path)["violation"]
    import json

    print(json.dumps({k: v[k] for k in v if k != "rewritten_text"}, indent=1)[:3000])
    if "input" not in v:
        print(f"VIOLATION property=C08 replay={path}")
        return 1
    corpus = harvest.build_corpus(with_harvest=False)
    g = corpus["grammars"][v["grammar_key"]]
    if len(v.get("rewritten_text", "")) < 3000 and not v["rewritten_text"].startswith("..."):
        a = outcome(run(Modes(g["text"]).get(v["mode"]), v["rule"], v["input"]))
        b = outcome(run(Modes(v["rewritten_text"]).get(v["mode"]), v["rule"], v["input"]))
        print("original :", brief(a)[:300])
        print("rewritten:", brief(b)[:300])
        if a == b:
            print("not reproduced")
            return 0
    print(f"VIOLATION property=C08 replay={path}")
    return 1
