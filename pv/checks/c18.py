"""C18 - PrattParser honours declared precedence and associativity.

Two independent oracles judge every tree `PrattParser.parse_expr` returns:

 * a binding-power reference written after pest's own pratt_parser.rs
   (`expr(rbp)`: nud, then `while rbp < lbp(peek): led`), and
 * an algorithm-independent *local constraint validator* of the result tree (in-order
   leaves equal the stream; no operator sits on a spine where a tighter / looser operator
   would have had to capture it).

If the two oracles disagree with each other the case is inconclusive, never a violation.
Tables keep precedence levels distinct across operator kinds and give equal levels only to
infix operators of one associativity (the statement says nothing about other ties).
"""

from __future__ import annotations

import itertools
import random

from pv.common import Acc, Run, load_replay, run_workers, seed_int


# ----------------------------------------------------------------------------- reference


def ref_parse(toks: list[str], table):
    pre, inf, post = table
    i = 0

    def lbp(t):
        if t in inf:
            return inf[t][0] * 2
        if t in post:
            return post[t] * 2
        return 0

    def expr(rbp):
        nonlocal i
        t = toks[i]
        i += 1
        if t in pre:
            lhs = ("pre", t, expr(pre[t] * 2 - 1))
        else:
            lhs = t
        while i < len(toks) and rbp < lbp(toks[i]):
            t = toks[i]
            i += 1
            if t in post:
                lhs = ("post", t, lhs)
            else:
                p, right = inf[t]
                lhs = ("in", t, lhs, expr(p * 2 - 1 if right else p * 2))
        return lhs

    # python-pest's precedences are plain ints supplied by the user and parse_expr's default min_prec is 0,
    # so level 0 is a legal (lowest) level: the top-level call must bind it too
    tree = expr(-1)
    return tree, i == len(toks)


def inorder(t, out):
    if isinstance(t, str):
        out.append(t)
    elif t[0] == "pre":
        out.append(t[1])
        inorder(t[2], out)
    elif t[0] == "post":
        inorder(t[2], out)
        out.append(t[1])
    else:
        inorder(t[2], out)
        out.append(t[1])
        inorder(t[3], out)
    return out


def validate_tree(tree, toks, table) -> str | None:
    """Local constraints; returns a description of the first broken one."""
    pre, inf, post = table
    if inorder(tree, []) != toks:
        return "in-order leaves differ from the token stream"

    def rbp_of(n):  # binding power with which n's right operand was parsed
        if n[0] == "pre":
            return pre[n[1]] * 2 - 1
        p, right = inf[n[1]]
        return p * 2 - 1 if right else p * 2

    def lbp_of(n):
        return (inf[n[1]][0] if n[0] == "in" else post[n[1]]) * 2

    def left_spine_ops(n):  # operators whose token follows the first primary of n directly upward
        while not isinstance(n, str) and n[0] in ("in", "post"):
            yield n
            n = n[2]

    def right_spine_ops(n):  # operators that were still "open" at the right end of n
        while not isinstance(n, str) and n[0] in ("in", "pre"):
            yield n
            n = n[3] if n[0] == "in" else n[2]

    def walk(n):
        if isinstance(n, str):
            return None
        if n[0] in ("in", "pre"):
            operand = n[3] if n[0] == "in" else n[2]
            for m in left_spine_ops(operand):
                if not rbp_of(n) < lbp_of(m):
                    return f"{m[1]} (binding {lbp_of(m)}) was captured by the operand of {n[1]} (right binding {rbp_of(n)})"
        if n[0] in ("in", "post"):
            for m in right_spine_ops(n[2]):
                if rbp_of(m) < lbp_of(n):
                    return f"{n[1]} (binding {lbp_of(n)}) should have been captured by the operand of {m[1]} (right binding {rbp_of(m)})"
        for c in n[2:]:
            r = walk(c)
            if r:
                return r
        return None

    return walk(tree)


# ----------------------------------------------------------------------------- impl harness


def make_parser(table):
    from pest import PrattParser

    pre, inf, post = table

    class P(PrattParser):
        PREFIX_OPS = dict(pre)
        POSTFIX_OPS = dict(post)
        INFIX_OPS = {k: (p, bool(r)) for k, (p, r) in inf.items()}

        def parse_primary(self, pair):
            return pair.name

        def parse_prefix(self, op, rhs):
            return ("pre", op.name, rhs)

        def parse_postfix(self, lhs, op):
            return ("post", op.name, lhs)

        def parse_infix(self, lhs, op, rhs):
            return ("in", op.name, lhs, rhs)

    return P()


def run_impl(parser, toks):
    from pest import Pair, RuleFrame
    from pest.pairs import Pairs

    text = " ".join(toks)
    pairs = []
    pos = 0
    for t in toks:
        pairs.append(Pair(text, pos, pos + len(t), RuleFrame(t, 0)))
        pos += len(t) + 1
    stream = Pairs(pairs).stream()
    tree = parser.parse_expr(stream)
    return tree, stream.peek() is None


def judge(table, toks, parser, acc: Acc) -> None:
    acc.count("streams")
    exp, all_used = ref_parse(toks, table)
    why_ref = validate_tree(exp, toks, table)
    if why_ref or not all_used:
        acc.inconclusive.append(f"oracle self-disagreement on {toks} {table}: {why_ref}")
        return
    try:
        got, consumed = run_impl(parser, toks)
    except Exception as e:  # noqa: BLE001
        _viol(acc, "parse_expr raised", table, toks, exp, f"{type(e).__name__}: {e}")
        return
    why = None
    if not consumed:
        why = "parse_expr did not consume the whole stream"
    elif got != exp:
        why = "tree differs from the binding-power reference; validator: " + str(validate_tree(got, toks, table))
    else:
        v = validate_tree(got, toks, table)
        if v:
            acc.inconclusive.append(f"validator rejects a tree the reference produced: {v}")
            return
    if why:
        _viol(acc, why, table, toks, exp, got)
        return
    nops = sum(1 for t in toks if not t.startswith("x"))
    if nops >= 2:
        acc.nontrivial(table, toks)
    kinds = {("pre" if t in table[0] else "post" if t in table[2] else "in") for t in toks if not t.startswith("x")}
    if any(t in table[0] and (t in table[1] or t in table[2]) for t in toks):
        acc.count("streams_with_a_name_in_two_roles")
    acc.count("streams_with_" + "+".join(sorted(kinds)) if kinds else "streams_operand_only")


def _viol(acc, why, table, toks, exp, got):
    key = why.split(";")[0][:40]
    seen = acc.sets.setdefault("_viol_keys", set())
    if key in seen and acc.nviol >= 3:
        acc.nviol += 1
        return
    seen.add(key)
    acc.violation("pratt-tree-mismatch", {"why": why, "table": {"prefix": table[0], "infix": table[1], "postfix": table[2]}, "tokens": toks, "expected": exp, "observed": got})


def gen_table(rnd: random.Random, small: bool):
    npre = rnd.randint(0, 2 if small else 4)
    npost = rnd.randint(0, 2 if small else 3)
    ninf = rnd.randint(1, 3 if small else 6)
    levels = rnd.sample(range(0, 16), npre + npost + ninf)
    if rnd.random() < 0.25:
        # make sure the lowest legal level 0 is used by some operator kind
        levels[rnd.randrange(len(levels))] = 0 if 0 not in levels else levels[0]
    pre = {f"p{j}": levels[j] for j in range(npre)}
    post = {f"q{j}": levels[npre + j] for j in range(npost)}
    inf = {}
    for j in range(ninf):
        lvl = levels[npre + npost + j]
        right = rnd.random() < 0.5
        # equal levels only among infix operators of one associativity
        if inf and rnd.random() < 0.3:
            other = rnd.choice(sorted(inf))
            lvl, right = inf[other]
        inf[f"i{j}"] = (lvl, right)
    if pre and rnd.random() < 0.35:
        # one rule name in two roles, told apart by position only (unary and binary minus, prefix and postfix ++):
        # a prefix operator shares its name with an infix or a postfix operator (never infix with postfix: ambiguous)
        shared = rnd.choice(sorted(pre))
        if post and rnd.random() < 0.4:
            old = rnd.choice(sorted(post))
            post = {(shared if k == old else k): v for k, v in post.items()}
        else:
            old = rnd.choice(sorted(inf))
            inf = {(shared if k == old else k): v for k, v in inf.items()}
    return pre, inf, post


def all_streams(table, maxlen):
    """prefix* primary postfix* (infix prefix* primary postfix*)* with at most maxlen tokens."""
    pre, inf, post = sorted(table[0]), sorted(table[1]), sorted(table[2])
    out: list[list[str]] = []

    def rec(toks, state, nprim):
        # state: 0 expecting prefix|primary, 1 after primary/postfix
        if state == 1:
            out.append(list(toks))
        if len(toks) == maxlen:
            return
        if state == 0:
            for p in pre:
                toks.append(p)
                rec(toks, 0, nprim)
                toks.pop()
            toks.append(f"x{nprim}")
            rec(toks, 1, nprim + 1)
            toks.pop()
        else:
            for q in post:
                toks.append(q)
                rec(toks, 1, nprim)
                toks.pop()
            for i in inf:
                toks.append(i)
                rec(toks, 0, nprim)
                toks.pop()

    rec([], 0, 0)
    return out


def worker(shard: dict) -> dict:
    acc = Acc()
    rnd = random.Random(shard["seed"])
    for k in range(shard["tables"]):
        if shard["mode"] == "exhaustive":
            table = gen_table(rnd, small=True)
            parser = make_parser(table)
            streams = all_streams(table, shard["maxlen"])
            acc.count("tables_exhaustive")
        else:
            table = gen_table(rnd, small=False)
            parser = make_parser(table)
            streams = []
            pre, inf, post = sorted(table[0]), sorted(table[1]), sorted(table[2])
            for _ in range(shard["per_table"]):
                toks: list[str] = []

                def operand():
                    for _ in range(rnd.choice([0, 0, 1, 2, 3])):
                        if pre:
                            toks.append(rnd.choice(pre))
                    toks.append(f"x{len(toks)}")
                    for _ in range(rnd.choice([0, 0, 1, 2, 3])):
                        if post:
                            toks.append(rnd.choice(post))

                operand()
                while len(toks) < shard["maxlen"] and rnd.random() < 0.8:
                    toks.append(rnd.choice(inf))
                    operand()
                streams.append(toks)
            if k % 10 == 3:
                # long streams: runs of 30-150 prefix / postfix operators and chains of 50-250 infix operators (one operator
                # repeated, or all of them mixed), so that depth- or length-dependent paths are exercised
                for shape in ("prefix_run", "postfix_run", "same_infix", "mixed_infix"):
                    toks = []
                    if shape == "prefix_run" and pre:
                        toks = [rnd.choice(pre) for _ in range(rnd.choice([30, 80, 150]))] + ["x0"] + ([rnd.choice(inf), "x1"] if inf else [])
                    elif shape == "postfix_run" and post:
                        toks = ["x0"] + [rnd.choice(post) for _ in range(rnd.choice([30, 80, 150]))] + ([rnd.choice(inf), "x1"] if inf else [])
                    elif shape == "same_infix" and inf:
                        op = rnd.choice(inf)
                        toks = ["x0"]
                        for i in range(rnd.choice([50, 120, 250])):
                            toks += [op, f"x{i + 1}"]
                    elif shape == "mixed_infix" and inf:
                        toks = ["x0"]
                        for i in range(rnd.choice([50, 120, 250])):
                            toks.append(rnd.choice(inf))
                            if pre and rnd.random() < 0.2:
                                toks.append(rnd.choice(pre))
                            toks.append(f"x{i + 1}")
                            if post and rnd.random() < 0.2:
                                toks.append(rnd.choice(post))
                    if toks:
                        streams.append(toks)
                        acc.count("long_streams")
                        acc.maxi("longest_stream", len(toks))
            acc.count("tables_random")
        for toks in streams:
            judge(table, toks, parser, acc)
        if k == 0 and streams:
            t = streams[min(len(streams) - 1, 17)]
            acc.sample({"table": {"prefix": table[0], "infix": table[1], "postfix": table[2]}, "tokens": t, "tree": ref_parse(t, table)[0]})
    return acc.dump()


def main(tier: str, seed: int) -> int:
    run = Run("C18", tier, seed)
    maxlen = run.pick(7, 9)
    ntab = run.pick(12, 40)
    shards = []
    for j in range(16):
        shards.append({"mode": "exhaustive", "seed": seed_int("C18", seed, "ex", j), "tables": ntab, "maxlen": maxlen})
        shards.append({"mode": "random", "seed": seed_int("C18", seed, "rnd", j), "tables": run.pick(60, 1500), "per_table": 25, "maxlen": 25})
    run_workers("pv.checks.c18", "worker", shards, timeout_s=run.pick(600, 3600), acc=run.acc)
    return run.finish(
        rule=(
            f"per seeded table (0-2 prefix, 1-3 infix, 0-2 postfix operators, random precedences) ALL well-formed streams of up to "
            f"{maxlen} tokens are parsed (exhaustive per table); plus random streams up to 25+ tokens on larger tables (up to 4/6/3 operators) and long streams (runs of up to 150 prefix / postfix "
            "operators, chains of up to 250 infix operators). "
            "distinct_nontrivial = distinct (table, stream) pairs with at least two operators whose tree matched both oracles."
        ),
        assumptions=[
            "precedence levels are distinct across operator kinds; equal levels occur only among infix operators with one associativity",
            "a rule name may be both a prefix operator and an infix or postfix operator (position decides); never both infix and postfix",
            "the binding-power reference follows pest's pratt_parser.rs; it is cross-checked on every case by the local-constraint validator",
        ],
        evaluations_key="streams",
        floors={"streams": 5000, "tables_exhaustive": 20, "tables_random": 100},
        extra={"bounds": {"exhaustive_stream_len": maxlen}},
    )


def replay(path: str) -> int:
    v = load_replay(path)["violation"]
    t = v["table"]
    table = (t["prefix"], {k: tuple(x) for k, x in t["infix"].items()}, t["postfix"])
    acc = Acc()
    judge(table, v["tokens"], make_parser(table), acc)
    if acc.violations:
        print("reproduced:", acc.violations[0])
        print(f"VIOLATION property=C18 replay={path}")
        return 1
    print("not reproduced")
    return 0


def selftest() -> None:
    table = ({"neg": 6}, {"add": (3, False), "mul": (4, False), "pow": (5, True)}, {"fac": 7})
    t, ok = ref_parse(["neg", "x0", "pow", "x1", "fac", "add", "x2", "mul", "x3"], table)
    assert ok and t == ("in", "add", ("in", "pow", ("pre", "neg", "x0"), ("post", "fac", "x1")), ("in", "mul", "x2", "x3")), t
    assert validate_tree(t, ["neg", "x0", "pow", "x1", "fac", "add", "x2", "mul", "x3"], table) is None
    # wrong trees must be rejected by the validator
    bad = ("in", "mul", ("in", "add", "a", "b"), "c")
    assert validate_tree(bad, ["a", "add", "b", "mul", "c"], table)
    bad2 = ("in", "add", "a", ("in", "add", "b", "c"))
    assert validate_tree(bad2, ["a", "add", "b", "add", "c"], table)
    ok2 = ("in", "pow", "a", ("in", "pow", "b", "c"))
    assert validate_tree(ok2, ["a", "pow", "b", "pow", "c"], table) is None
    low = ({"neg": 6}, {"pow": (8, True)}, {"fac": 3})
    assert ref_parse(["neg", "x", "fac"], low)[0] == ("post", "fac", ("pre", "neg", "x"))
    assert validate_tree(("pre", "neg", ("post", "fac", "x")), ["neg", "x", "fac"], low)
    zero = ({}, {"add": (1, False)}, {"opt": 0})
    assert ref_parse(["a", "add", "b", "opt"], zero) == (("post", "opt", ("in", "add", "a", "b")), True)
