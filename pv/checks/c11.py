"""C11 - loading a grammar is total: a Parser or a renderable PestGrammarError."""

from __future__ import annotations

import glob
import os
import random
import re
import signal

from pv.common import REPO, Acc, Run, load_replay, run_workers, seed_int
from pv.gen import gtexts

POS_RE = re.compile(r"-> (-?\d+):(-?\d+)")


class Watchdog(Exception):
    pass


class LoaderBudget(Exception):
    pass


_MON = {"tool": None, "count": 0, "limit": 0, "dir": ""}


def _on_start(code, _offset):
    import sys

    if not code.co_filename.startswith(_MON["dir"]):
        return sys.monitoring.DISABLE
    _MON["count"] += 1
    if _MON["count"] > _MON["limit"]:
        _MON["limit"] = 1 << 62  # raise once
        raise LoaderBudget
    return None


def _monitor_on(limit: int) -> None:
    """Count Python function entries inside pest/ (sys.monitoring PY_START, ~5 % cost); abort the load beyond `limit`."""
    import sys

    import pest

    if _MON["tool"] is None:
        _MON["dir"] = os.path.dirname(pest.__file__)
        tool = sys.monitoring.PROFILER_ID
        sys.monitoring.use_tool_id(tool, "pv-c11")
        sys.monitoring.register_callback(tool, sys.monitoring.events.PY_START, _on_start)
        _MON["tool"] = tool
    _MON["count"] = 0
    _MON["limit"] = limit
    sys.monitoring.set_events(_MON["tool"], sys.monitoring.events.PY_START)


def _monitor_off() -> int:
    import sys

    sys.monitoring.set_events(_MON["tool"], 0)
    return _MON["count"]


def _alarm(_sig, _frm):
    raise Watchdog


LOADER_STATS = {"max_entries_per_char_x100": 0, "budget_violations": 0, "budget_blown_beyond_bounds": 0}
# measured on the unchanged tree (evidence key loader_function_entries_per_character_x100): at most ~2 200 entries per
# character (stacked counted repetitions unrolled by the optimizer); the budget is ~10x that plus a constant
BUDGET_PER_CHAR = 20_000
BUDGET_CONST = 1_000_000


def nesting(text: str) -> int:
    d = m = 0
    run = 0
    for c in text:
        if c in "([{":
            d += 1
            m = max(m, d)
        elif c in ")]}":
            d = max(0, d - 1)
        if c in "!&":
            run += 1
            m = max(m, d + run)
        elif not c.isspace():
            run = 0
    return m


def max_count(text: str) -> int:
    return max((int(x) for x in re.findall(r"\d+", text)), default=0)


def classify(text: str, optimized: bool):
    """-> (class, detail)."""
    from pest import Parser, PestGrammarError

    signal.signal(signal.SIGALRM, _alarm)
    signal.setitimer(signal.ITIMER_REAL, 60.0)
    # bounded progress in LOGICAL steps: function entries inside pest/ while loading (never wall-clock)
    _monitor_on(BUDGET_PER_CHAR * len(text) + BUDGET_CONST)
    try:
        try:
            if optimized:
                Parser.from_grammar(text)
            else:
                Parser.from_grammar(text, optimizer=None)
            return "Parser", ""
        except PestGrammarError as e:
            try:
                s = str(e)
                dm = e.detailed_message()
            except Exception as ex:  # noqa: BLE001
                return "render-raises", f"str(exc) raised {type(ex).__name__}: {ex}"
            if not isinstance(s, str) or not isinstance(dm, str):
                return "render-raises", "message is not a string"
            m = POS_RE.search(s)
            if m:
                ln, col = int(m.group(1)), int(m.group(2))
                ok = False
                for lines in (text.split("\n"), text.splitlines() or [""], (text.splitlines() or [""]) + [""]):
                    if 1 <= ln <= max(1, len(lines)) and 0 <= col <= len(lines[ln - 1] if ln - 1 < len(lines) else "") + 1:
                        ok = True
                if not ok:
                    return "bad-position", f"message points at {ln}:{col}, which does not exist in the text"
                return ("PestGrammarSyntaxError" if type(e).__name__ == "PestGrammarSyntaxError" else "PestGrammarError"), ""
            return "PestGrammarError-without-position", ""
        except LoaderBudget:
            return "step-budget", f"loader made more than {BUDGET_PER_CHAR * len(text) + BUDGET_CONST} function entries inside pest/ on a {len(text)}-character text (no progress?)"
        except Watchdog:
            return "watchdog", "loader still running after 60 s"
        except RecursionError:
            return "escaped:RecursionError", ""
        except MemoryError:
            return "escaped:MemoryError", ""
        except Exception as e:  # noqa: BLE001
            return "escaped:" + type(e).__name__, str(e)[:200]
    finally:
        n = _monitor_off()
        signal.setitimer(signal.ITIMER_REAL, 0)
        if n > LOADER_STATS["max_entries_per_char_x100"] * max(1, len(text)) // 100 and len(text) >= 20:
            LOADER_STATS["max_entries_per_char_x100"] = n * 100 // max(1, len(text))


def judge(text: str, source: str, acc: Acc, viol_keys: dict) -> None:
    if LOADER_STATS["budget_violations"] >= 3:
        # three non-terminating loads are witness enough; each further one would burn the whole budget again
        acc.count("skipped_after_three_step_budget_violations")
        return
    if LOADER_STATS["budget_blown_beyond_bounds"] >= 3 and len(text) > 2048:
        # same economy for texts beyond the stated bounds (abstentions): a tree that spins on them would keep this worker busy for hours
        acc.count("skipped_after_three_blown_budgets_beyond_bounds")
        return
    for optimized in (False, True):
        cls, detail = classify(text, optimized)
        acc.count("loads")
        acc.count("outcome." + cls)
        acc.count("source." + source)
        if cls.startswith("PestGrammar") and cls != "PestGrammarError-without-position":
            acc.count("messages_rendered_and_position_checked")
        bad = cls.startswith("escaped:") or cls in ("render-raises", "bad-position")
        if cls == "step-budget":
            # unclosed nested block comments are exponential in pest's own PEG as well; counts / nesting bounds as stated
            if len(text) <= 2048 and nesting(text) <= 40 and max_count(text) <= 64 and text.count("/*") <= 12:
                bad = True
                LOADER_STATS["budget_violations"] += 1
            else:
                acc.count("abstain.beyond_stated_bounds")
                LOADER_STATS["budget_blown_beyond_bounds"] += 1
                continue
        if cls == "watchdog":
            LOADER_STATS["budget_blown_beyond_bounds"] += 1
            if len(text) <= 2048 and nesting(text) <= 40 and max_count(text) <= 64:
                acc.inconclusive.append(f"loader watchdog on {text[:80]!r}")
            continue
        if cls in ("escaped:RecursionError", "escaped:MemoryError") and (nesting(text) > 40 or max_count(text) > 64 or len(text) > 2048):
            acc.count("abstain.beyond_stated_bounds")
            continue
        if bad:
            key = (cls, detail.split(":")[0][:30], optimized)
            n = viol_keys.get(key, 0)
            viol_keys[key] = n + 1
            if n >= 2:
                acc.nviol += 1
                continue
            acc.violation("c11", {"text": text, "optimized": optimized, "class": cls, "detail": detail, "source": source})
    if text.strip():
        acc.nontrivial(text)


def bundled_files() -> list[str]:
    return sorted(glob.glob(os.path.join(REPO, "tests", "grammars", "*.pest")) + glob.glob(os.path.join(REPO, "examples", "*", "*.pest")))


def worker(shard: dict) -> dict:  # noqa: PLR0912
    acc = Acc()
    vk: dict = {}
    rnd = random.Random(shard["seed"])
    kind = shard["kind"]
    if kind == "prefixes":
        with open(shard["file"], encoding="utf-8") as fd:
            t = fd.read()
        for k in range(shard["lo"], min(shard["hi"], len(t) + 1), shard["step"]):
            judge(t[:k], "truncation_of_bundled", acc, vk)
        acc.sample({"truncations_of": os.path.basename(shard["file"]), "offsets": [shard["lo"], shard["hi"], shard["step"]]})
    elif kind == "generated":
        for i in range(shard["count"]):
            r2 = random.Random(seed_int(shard["seed"], i))
            c = i % 4
            if c == 0:
                t = gtexts.Deriver(r2).grammar()
                src = "derivation"
            elif c == 1:
                t = gtexts.printed_grammar(r2)
                src = "printed_ast"
            elif c == 2:
                t = gtexts.Deriver(r2, clean=True).grammar()
                src = "derivation"
            else:
                t = gtexts.printed_grammar(r2, noisy=False)
                src = "printed_ast"
            judge(t, src, acc, vk)
            if shard.get("prefixes") and len(t) < 400:
                for k in range(len(t)):
                    judge(t[:k], "truncation_of_generated", acc, vk)
            for _ in range(shard.get("mutants", 4)):
                m = gtexts.mutate_char(r2, t) if r2.random() < 0.5 else gtexts.mutate_token(r2, t)
                judge(m, "mutant", acc, vk)
            if i == 0:
                acc.sample({"generated": t[:300]})
    elif kind == "families":
        # printed grammars of the bounded-exhaustive families: size (rule chains, wide choices, nesting, counts up to the
        # stated bounds) and the shapes the optimizer passes pattern-match on, here also with empty literals as operands
        from pv.gen import grammars as G
        from pv.ref.refpeg import grammar_text as show

        for idx in shard["scale"]:
            c = G.scale_case(idx)
            if c is not None:
                judge(show(c[1]), "scale_family", acc, vk)
        for idx in shard["opt"]:
            _label, rules, _inputs = G.opt_target_case(idx, G.OPT_OPERANDS_WITH_EMPTY)
            judge(show(rules), "optimizer_target_family", acc, vk)
    elif kind == "escapes":
        for _ in range(shard["count"]):
            judge(gtexts.escape_text(rnd), "escape_form", acc, vk)
    elif kind == "soups":
        for _ in range(shard["count"]):
            judge(gtexts.token_soup(rnd) if rnd.random() < 0.5 else gtexts.char_soup(rnd), "soup", acc, vk)
    elif kind == "edges":
        for t in gtexts.EDGE_TEXTS:
            judge(t, "edge_text", acc, vk)
    elif kind == "pointwise":
        t = shard["text"]
        for i in range(len(t) + 1):
            for ch in shard["alphabet"]:
                judge(t[:i] + ch + t[i:], "single_char_insertion", acc, vk)
                if i < len(t):
                    judge(t[:i] + ch + t[i + 1 :], "single_char_substitution", acc, vk)
            if i < len(t):
                judge(t[:i] + t[i + 1 :], "single_char_deletion", acc, vk)
    acc.maxi("loader_function_entries_per_character_x100", LOADER_STATS["max_entries_per_char_x100"])
    return acc.dump()


SMALL = [
    'a = { "x" ~ b* | \'a\'..\'z\' }\nb = _{ #tt = ("y")+ ~ PEEK[1..2] ~ ^"q"{2,3} }',
    'WHITESPACE = _{ " " }\n/// d\nr = @{ !("\\u{41}" | "\\n") ~ ANY ~ PUSH(r)? }',
    "//! g\nx = ${ PUSH_LITERAL(\"a\") ~ (POP | DROP)+ /* c */ ~ &PEEK_ALL }",
]


def main(tier: str, seed: int) -> int:
    run = Run("C11", tier, seed)
    shards: list[dict] = []
    for f in bundled_files():
        n = os.path.getsize(f)
        step = run.pick(max(1, n // 700), 1)
        chunk = 1500
        for lo in range(0, n + 1, chunk):
            shards.append({"kind": "prefixes", "file": f, "lo": lo + (seed % step if step > 1 else 0), "hi": lo + chunk, "step": step, "seed": 0})
    for j in range(16):
        shards.append({"kind": "generated", "seed": seed_int("C11", seed, "g", j), "count": run.pick(60, 1200), "prefixes": j < run.pick(2, 16), "mutants": run.pick(4, 8)})
        shards.append({"kind": "soups", "seed": seed_int("C11", seed, "s", j), "count": run.pick(500, 8000)})
    shards.append({"kind": "edges", "seed": 0})
    for j in range(8):
        shards.append({"kind": "escapes", "seed": seed_int("C11", seed, "esc", j), "count": run.pick(400, 6000)})
    from pv.gen import grammars as G

    sc = list(range(G.scale_size()))
    ot = list(range(G.opt_target_size(G.OPT_OPERANDS_WITH_EMPTY)))
    random.Random(seed_int("C11", seed, "fam")).shuffle(ot)
    if run.quick:
        ot = ot[:3000]
    for j in range(16):
        shards.append({"kind": "families", "scale": sc[j::16], "opt": ot[j::16], "seed": 0})
    alpha = list('ab_ ={}()[]|~*+?!&^"\'\\.,#/@$-019\nPE') if not run.quick else list('a ={(|~*!&^"\'\\.#/-1\nP')
    for t in SMALL[: run.pick(2, 3)]:
        shards.append({"kind": "pointwise", "text": t, "alphabet": alpha, "seed": 0})
    run_workers("pv.checks.c11", "worker", shards, timeout_s=run.pick(900, 7200), acc=run.acc)
    return run.finish(
        rule=(
            "every text is loaded with optimizer=None and with the default optimizer: EVERY prefix of every bundled .pest file (a stride in the quick "
            "tier), prefixes of generated grammars, every single-character insertion / substitution / deletion at every offset of small grammars, "
            "meta-grammar derivations, printed random ASTs, their char/token mutants, token and character soups, a table of edge texts (ends inside "
            "string / escape / comment / rule, malformed and out-of-range escapes, reversed ranges, undefined rules), and the printed grammars of two "
            "bounded-exhaustive families: size (rule chains in both definition orders, wide choices, long sequences, nesting, counts, up to the stated "
            "bounds) and the shapes the optimizer passes pattern-match on, with empty literals among the operands. Outcome must be Parser or "
            "PestGrammarError whose message renders and whose line:col exists. distinct_nontrivial = distinct non-blank texts."
        ),
        assumptions=[
            "RecursionError / MemoryError / watchdog beyond 2 kB, nesting 40 or counts 64 are abstentions (stated bounds)",
            "a printed position is accepted if it exists under '\\n'-splitting or str.splitlines()",
        ],
        evaluations_key="loads",
        floors={"loads": 20000, "outcome.Parser": 500, "outcome.PestGrammarSyntaxError": 5000, "messages_rendered_and_position_checked": 5000, "source.truncation_of_bundled": 2000, "source.edge_text": 100,
                "source.scale_family": 2000, "source.optimizer_target_family": 4000},
    )


def replay(path: str) -> int:
    v = load_replay(path)["violation"]
    cls, detail = classify(v["text"], v["optimized"])
    print(f"text={v['text']!r} optimized={v['optimized']} -> {cls} {detail}")
    if cls.startswith("escaped:") or cls in ("render-raises", "bad-position", "step-budget"):
        print(f"VIOLATION property=C11 replay={path}")
        return 1
    print("not reproduced")
    return 0
