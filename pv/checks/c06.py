"""C06 - every returned parse tree is well-formed (invariant monitor, no reference needed)."""

from __future__ import annotations

from pv.checks import _engine_check as E
from pv.common import Run

PROP = "C06"
JUDGES = ["c06"]


def main(tier: str, seed: int) -> int:
    run = Run(PROP, tier, seed)
    extra = {"start_rules": "all", "positions": True, "extra_alpha": " #"}
    shards = []
    shards += E.random_shards(PROP, run, JUDGES, profile="full", count=run.pick(45, 500), cap=run.pick(120, 300), maxlen=run.pick(4, 5), extra={**extra, "long_inputs": 2})
    shards += E.random_shards(PROP, run, JUDGES, profile="trivia", count=run.pick(30, 300), cap=run.pick(120, 300), maxlen=4, extra=extra)
    shards += E.random_shards(PROP, run, JUDGES, profile="stack", count=run.pick(20, 300), cap=run.pick(120, 300), maxlen=5, extra={"start_rules": "all", "positions": True})
    shards += E.matrix_shards(PROP, run, JUDGES, sample=run.pick(1500, 0), cap=run.pick(150, 400), extra={"positions": True})
    hostile = {"push_empty": True, "trivia_refs": True, "trivia_explicit": True, "zero_counts": True, "zero_width_stack_reps": True}
    shards += E.random_shards(PROP, run, JUDGES, profile="full", count=run.pick(25, 300), cap=run.pick(120, 300), maxlen=4, extra={**extra, "profile_overrides": hostile})
    shards += E.scale_shards(PROP, run, JUDGES, extra={"positions": True})
    E.execute(run, shards)
    from pv.checks import bundled

    bundled.run_bundled(run, PROP, JUDGES)
    return run.finish(
        rule=(
            "every successful parse of the engine workload (random grammars of all profiles + construct matrix, every rule as start rule, all "
            "short inputs, all start positions of short inputs, 4 modes) and of the bundled real-world grammars on corpus + mutated inputs is "
            "walked by the invariant monitor: spans, text, child order/containment, names, tags, tokens() balance and monotonicity, flatten() "
            "pre-order, single root at start_pos, dump()/dumps() agreement with an independent renderer. distinct_nontrivial = distinct "
            "(grammar, input) cases run."
        ),
        assumptions=["pair names are compared with the non-silent rules of the grammar as printed by the generator (or loaded, for bundled grammars)"],
        evaluations_key="c06.trees_checked",
        floors={
            "c06.trees_checked": 20000, "c06.pairs_checked": 50000, "c06.trees_with_tags": 50, "c06.trees_with_zero_width_pairs": 500,
            "c06.trees_with_trivia_pairs": 200, "c06.trees_with_EOI": 100, "c06.trees_with_start_pos": 1000, "bundled.c06.trees_checked": 200,
        },
    )


def replay(path: str) -> int:
    return E.replay(PROP, path, JUDGES)
