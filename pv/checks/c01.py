"""C01 - the generated parser module is observationally identical to the interpreter."""

from __future__ import annotations

from pv.checks import _engine_check as E
from pv.common import Run

PROP = "C01"
JUDGES = ["c01"]


def main(tier: str, seed: int) -> int:
    run = Run(PROP, tier, seed)
    extra = {"start_rules": "all", "positions": True, "extra_alpha": " #"}
    shards = []
    shards += E.random_shards(PROP, run, JUDGES, profile="full", count=run.pick(45, 500), cap=run.pick(120, 300), maxlen=run.pick(4, 5), extra={**extra, "long_inputs": 2})
    shards += E.random_shards(PROP, run, JUDGES, profile="trivia", count=run.pick(25, 300), cap=run.pick(120, 300), maxlen=4, extra=extra)
    shards += E.random_shards(PROP, run, JUDGES, profile="stack", count=run.pick(25, 300), cap=run.pick(120, 300), maxlen=5, extra={"start_rules": "all", "positions": True})
    shards += E.matrix_shards(PROP, run, JUDGES, sample=run.pick(1600, 0), cap=run.pick(150, 400), extra={"positions": True})
    hostile = {"more_builtins": True, "push_empty": True, "trivia_refs": True, "trivia_explicit": True, "ci_nonascii": True, "zero_counts": True, "zero_width_stack_reps": True, "skipuntil_ci": True}
    shards += E.random_shards(PROP, run, JUDGES, profile="full", count=run.pick(25, 300), cap=run.pick(120, 300), maxlen=4, extra={**extra, "profile_overrides": hostile, "rename": True})
    for j in range(8):
        shards.append({"prop": PROP, "judges": JUDGES, "modes": ["I", "GI", "O", "GO"], "source": "stackscen", "seed": E.seed_int(PROP, run.seed, "sc", j), "count": run.pick(40, 500), "cap": run.pick(150, 400), "maxlen": 5, "sample_at": 10**9})
    import random as _random

    from pv.gen import grammars as G

    swp = list(range(G.stack_swap_size()))
    _random.Random(E.seed_int(PROP, run.seed, "swap")).shuffle(swp)
    if run.quick:
        swp = swp[:800]
    for j in range(16):
        shards.append({"prop": PROP, "judges": JUDGES, "modes": ["I", "GI", "O", "GO"], "source": "stackswap", "indices": swp[j::16], "seed": E.seed_int(PROP, run.seed, "sw", j), "cap": 20, "maxlen": 1, "sample_at": 10**9})
    shards += E.scale_shards(PROP, run, JUDGES)
    E.execute(run, shards)
    return run.finish(
        rule=(
            "random grammars of all profiles (core, trivia+modifiers, stack, tags, SkipUntil pattern, SOI) and the construct x context x "
            "modifier x trivia matrix; for each Parser (optimizer None and default) generate() is called twice (bytes compared), the source "
            "is compiled and executed, and for EVERY rule as start rule, all short inputs and all start positions of short inputs the generated "
            "parse() is compared with Parser.parse() of the same object: whole tree incl. tags, or furthest failure position; generate() is "
            "called once more after the parses. distinct_nontrivial = distinct (grammar, input) cases compared."
        ),
        assumptions=[
            "relative property: the interpreter on the same Parser object is the oracle; cases where the interpreter itself raises are C07's",
            "cases on which the reference evaluator abstains (undefined behaviour such as empty iterations) are not run",
        ],
        evaluations_key="c01.comparisons",
        floors={"c01.comparisons": 20000, "c01.generate_twice": 500, "c01.failures_with_equal_furthest_pos": 1000, "c01.comparisons_with_start_pos": 1000, "c01.generate_after_parses": 500},
    )


def replay(path: str) -> int:
    return E.replay(PROP, path, JUDGES)
