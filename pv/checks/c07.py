"""C07 - parse() is total: Pairs or PestParsingError, deterministically."""

from __future__ import annotations

from pv.checks import _engine_check as E
from pv.common import Run

PROP = "C07"
JUDGES = ["c07"]


def main(tier: str, seed: int) -> int:
    run = Run(PROP, tier, seed)
    extra = {"start_rules": "all", "extra_alpha": " #"}
    shards = []
    shards += E.random_shards(PROP, run, JUDGES, profile="full", count=run.pick(45, 500), cap=run.pick(150, 300), maxlen=run.pick(4, 5), extra={**extra, "long_inputs": 2})
    shards += E.random_shards(PROP, run, JUDGES, profile="stack", count=run.pick(45, 500), cap=run.pick(150, 300), maxlen=5, extra={"start_rules": "all", "profile_overrides": {"stack_weight": 0.45}})
    shards += E.random_shards(PROP, run, JUDGES, profile="trivia", count=run.pick(25, 300), cap=run.pick(150, 300), maxlen=4, extra=extra)
    shards += E.matrix_shards(PROP, run, JUDGES, sample=run.pick(2500, 0), cap=run.pick(150, 400))
    shards += E.random_shards(PROP, run, JUDGES, profile="full", count=run.pick(20, 250), cap=run.pick(120, 300), maxlen=4, extra={"start_rules": "all", "extra_alpha": " #\u00df\u00e9", "profile_overrides": {"more_builtins": True, "ci_nonascii": True, "push_empty": True, "trivia_refs": True, "trivia_explicit": True, "zero_counts": True, "zero_width_stack_reps": True, "skipuntil_ci": True}})
    for j in range(16):
        shards.append({"prop": PROP, "judges": JUDGES, "modes": ["I", "GI", "O", "GO"], "source": "stackscen", "seed": E.seed_int(PROP, run.seed, "sc", j), "count": run.pick(50, 700), "cap": run.pick(200, 500), "maxlen": 5, "sample_at": 10**9})
    import random as _random

    from pv.gen import grammars as G

    dig = list(range(G.stack_dig_size()))
    _random.Random(E.seed_int(PROP, run.seed, "dig")).shuffle(dig)
    if run.quick:
        dig = dig[:1600]
    for j in range(16):
        shards.append({"prop": PROP, "judges": JUDGES + ["t1"], "modes": ["I", "GI", "O", "GO"], "source": "stackdig", "indices": dig[j::16], "seed": E.seed_int(PROP, run.seed, "dg", j), "cap": 40, "maxlen": 2, "sample_at": 10**9})
    swp = list(range(G.stack_swap_size()))
    _random.Random(E.seed_int(PROP, run.seed, "swap")).shuffle(swp)
    if run.quick:
        swp = swp[:800]
    for j in range(16):
        shards.append({"prop": PROP, "judges": JUDGES + ["t1"], "modes": ["I", "GI", "O", "GO"], "source": "stackswap", "indices": swp[j::16], "seed": E.seed_int(PROP, run.seed, "sw", j), "cap": 20, "maxlen": 1, "sample_at": 10**9})
    shards += E.scale_shards(PROP, run, JUDGES)
    E.execute(run, shards)
    from pv.checks import bundled

    bundled.run_bundled(run, PROP, JUDGES)
    return run.finish(
        rule=(
            "hostile profile: random grammars of all profiles (stack operations weighted up so that PEEK/POP/DROP/PEEK_ALL/POP_ALL/PEEK[..] meet an "
            "empty stack in every context), the construct matrix (bare stack ops as rule bodies, inside every repetition form and predicate), "
            "EVERY rule as start rule, empty input and all short inputs (hence every truncation of every short positive sample), 4 modes; plus "
            "bundled grammars on corpus, truncations and mutants. Monitors: exception type at the API boundary, logical step budget "
            "(1000 x reference steps + 1e5, counted in checkpoints and rule entries) for termination, second identical call for determinism. "
            "distinct_nontrivial = distinct (grammar, input) cases run."
        ),
        assumptions=[
            "well-formed grammars by generator construction; inputs whose reference nesting depth exceeds 60 and RecursionError on deep inputs are abstentions",
            "termination is judged by a logical step budget, never by wall-clock",
        ],
        evaluations_key="c07.calls",
        floors={"c07.calls": 20000, "c07.repeat_calls": 20000, "c07.empty_input_calls": 500, "c07.outcome.ok": 5000, "c07.outcome.fail": 5000, "bundled.c07.calls": 500},
    )


def replay(path: str) -> int:
    return E.replay(PROP, path, JUDGES)
