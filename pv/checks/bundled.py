"""Bundled real-world grammars (placeholder until the corpus harvest is built)."""


def run_bundled(run, prop, judges) -> None:
    return None
