"""Bundled real-world grammars under the invariant / totality / failure / start_pos judges.

No reference model is involved: C06, C07, C13 are invariant monitors and C16 is metamorphic.
Inputs = shipped example documents + (grammar, rule, input) triples harvested from the
repository's own test-suite (run in a temporary copy) + single-edit mutants and truncations.
"""

from __future__ import annotations

import random

from pv import harvest, monitor
from pv.common import Acc, Run, run_workers, seed_int
from pv.engine import check_failure, check_tree_invariants
from pv.modes import Modes, brief, run, shift_tree

MUT_ALPHA = list(" \n\t\"'{}[](),:;=#-+*/\\.0aZ_<>!?@$&|~^%é")


def mutants(rnd: random.Random, s: str, n: int) -> list[str]:
    out = []
    for _ in range(n):
        if not s:
            out.append(rnd.choice(MUT_ALPHA))
            continue
        i = rnd.randrange(len(s) + 1)
        c = rnd.random()
        if c < 0.25 and i < len(s):
            out.append(s[:i] + s[i + 1 :])
        elif c < 0.5:
            out.append(s[:i] + rnd.choice(MUT_ALPHA) + s[i:])
        elif c < 0.7 and i < len(s):
            out.append(s[:i] + rnd.choice(MUT_ALPHA) + s[i + 1 :])
        elif c < 0.9:
            out.append(s[:i])  # truncation: input ending mid-construct
        else:
            j = rnd.randrange(len(s) + 1)
            a, b = sorted((i, j))
            out.append(s[:a] + s[b:])
    return out


def static_info(parser) -> tuple[set[str], set[str], set[str], set[str]]:
    """non-silent rule names, silent rule names, tags written, rules that can reach SOI - from the loaded rule trees."""
    from pest.grammar.rule import SILENT, BuiltInRule

    nonsilent = {"EOI"}
    silent = set()
    tags: set[str] = set()
    direct_soi: set[str] = set()
    refs: dict[str, set[str]] = {}

    def walk(e, owner, seen):
        if id(e) in seen:
            return
        seen.add(id(e))
        t = getattr(e, "tag", None)
        if t:
            tags.add(t)
        tn = type(e).__name__
        if tn == "SOI" or (tn == "Identifier" and getattr(e, "value", None) == "SOI"):
            direct_soi.add(owner)
        if tn == "Identifier":
            refs[owner].add(e.value)
        for c in e.children():
            walk(c, owner, seen)

    for name, r in parser.rules.items():
        if isinstance(r, BuiltInRule):
            continue
        (silent if r.modifier & SILENT else nonsilent).add(name)
        refs[name] = set()
        walk(r, name, set())
    # trivia rules are reachable from every rule
    reach = set(direct_soi)
    changed = True
    while changed:
        changed = False
        for name, rs in refs.items():
            if name not in reach and (rs & reach):
                reach.add(name)
                changed = True
    if reach & {"WHITESPACE", "COMMENT"}:
        reach = set(refs)
    return nonsilent, silent, tags, reach


def worker(shard: dict) -> dict:  # noqa: PLR0912, PLR0915
    acc = Acc()
    judges = set(shard["judges"])
    monitor.install()
    monitor.CFG["t4"] = "c13" in judges
    rnd = random.Random(shard["seed"])
    key = shard["key"]
    text = shard["text"]
    md = Modes(text)
    objs = {}
    # unoptimized modes first (no optimizer has run in this process before them)
    for m in ("I", "GI", "O", "GO"):
        o = md.get(m)
        if o is None:
            acc.count(f"bundled.build_failed.{m}")
            acc.inconclusive.append(f"bundled grammar {key} does not build in mode {m}: {md.errors[m]}")
            continue
        if m in ("GI", "GO"):
            monitor.attach(o)
        objs[m] = o
    if "I" not in objs:
        return acc.dump()
    nonsilent, silent, tags, soi_rules = static_info(objs["I"])
    from pest import Parser

    known = set(objs["I"].rules) | set(Parser.BUILTIN) | {"SKIP"} - {"SKIP"}
    cases: list[tuple[str, str, int]] = []
    if shard.get("explicit"):
        cases = [tuple(c) for c in shard["explicit"]]
        shard = dict(shard, cases=[])
    for rule, inp in shard["cases"]:
        cases.append((rule, inp, 0))
        nm = shard["mutants"] if len(inp) < 400 else max(2, shard["mutants"] // 6)
        for mu in mutants(rnd, inp, nm):
            cases.append((rule, mu, 0))
        if inp and len(inp) < 200:
            cases.append((rule, inp, rnd.randrange(len(inp) + 1)))
    if "c16" in judges and not cases:
        emb = []
        for rule, inp in shard["cases"]:
            if 0 < len(inp) <= 80 and rule not in soi_rules:
                emb.append((rule, inp))
        cases = [(r, i, 0) for r, i in emb[: shard.get("c16_cases", 25)]]
        for r, i in emb[: shard.get("c16_cases", 25)]:
            for mu in mutants(rnd, i, 2):
                if 0 < len(mu) <= 80:
                    cases.append((r, mu, 0))
    seen = set()
    viol_keys: dict[tuple, int] = {}

    def violation(judge, vkey, rule, inp, st, mode, expected, observed, extra=None):
        n = viol_keys.get((judge,) + vkey, 0)
        viol_keys[(judge,) + vkey] = n + 1
        if n >= 2:
            acc.nviol += 1
            return
        d = {"judge": judge, "key": list(vkey), "label": "bundled/" + key, "grammar_key": key, "grammar": text if len(text) < 1500 else text[:1500] + "...", "rule": rule, "input": inp, "start": st, "mode": mode, "expected": expected, "observed": observed, "bundled": True}
        if extra:
            d.update(extra)
        acc.violation(judge, d)

    for rule, inp, st in cases:
        if (rule, inp, st) in seen:
            continue
        seen.add((rule, inp, st))
        acc.nontrivial(key, rule, inp, st)
        monitor.set_budget(5_000_000 + 5000 * len(inp))
        for m, o in objs.items():
            keep: list = []
            try:
                res = run(o, rule, inp, st, keep)
            except monitor.BudgetExceeded as b:
                res = ("exc", "BudgetExceeded", str(b))
            except monitor.MonitorViolation as mv:
                violation("monitor", (mv.what, m), rule, inp, st, m, "state discipline", mv.detail)
                res = ("exc", "MonitorViolation", mv.what)
            acc.count("bundled.parses")
            acc.count(f"bundled.outcome.{res[0]}")
            raw = keep[0] if keep else None
            if "c07" in judges:
                acc.count("bundled.c07.calls")
                if res[0] == "exc" and res[1] != "RecursionError":
                    violation("c07", (m, res[1]), rule, inp, st, m, "Pairs or PestParsingError", brief(res))
                elif res[0] != "exc":
                    res2 = run(o, rule, inp, st)
                    if res2 != res:
                        violation("c07", (m, "nondeterministic"), rule, inp, st, m, brief(res)[:300], brief(res2)[:300])
            if "c06" in judges and res[0] == "ok":
                acc.count("bundled.c06.trees_checked")
                why = check_tree_invariants(raw, inp, st, nonsilent, tags, rule in silent)
                if why:
                    w = why.split(" ")
                    violation("c06", (m, w[0], w[1] if len(w) > 1 else ""), rule, inp, st, m, "well-formed tree", why)
                else:
                    n = sum(1 for _ in raw.flatten())
                    acc.count("bundled.c06.pairs_checked", n)
                    acc.maxi("bundled.c06.max_pairs_in_tree", n)
            if "c13" in judges and res[0] == "fail":
                acc.count("bundled.c13.failures_checked")
                if "\n" in inp:
                    acc.count("bundled.c13.multi_line_inputs")
                why = check_failure(raw, inp, st, known)
                if why:
                    w = why.split(" ")
                    violation("c13", (m, w[0], w[1] if len(w) > 1 else ""), rule, inp, st, m, "valid failure record", why, {"result": brief(res)[:300]})
            if "c16" in judges and st == 0 and rule not in soi_rules and res[0] != "exc":
                ks = sorted({0, len(inp), *(rnd.randrange(len(inp) + 1) for _ in range(6))}) if len(inp) > 8 else range(len(inp) + 1)
                for k in ks:
                    rk = run(o, rule, inp, k)
                    rs = run(o, rule, inp[k:], 0)
                    acc.count("bundled.c16.comparisons")
                    if rs[0] == "ok":
                        exp = ("ok", shift_tree(rs[1], k))
                    elif rs[0] == "fail":
                        exp = ("fail", rs[1] + k if rs[1] >= 0 else rs[1]) + rs[2:]
                    else:
                        exp = rs
                    if rk != exp and not (rk[0] == "exc" and rk[1] == "RecursionError"):
                        violation("c16", (m, f"{rk[0]}-vs-{exp[0]}"), rule, inp, k, m, brief(exp)[:400], brief(rk)[:400])
                    if k:
                        other = "".join("q" if c != "q" else "r" for c in inp[:k]) + inp[k:]
                        ro = run(o, rule, other, k)
                        acc.count("bundled.c16.prefix_variations")
                        if ro != rk:
                            violation("c16", (m, "prefix-consulted"), rule, inp, k, m, brief(rk)[:400], brief(ro)[:400], {"varied_text": other})
    if "c16" in judges:
        acc.count("bundled.c16.rules_reaching_SOI", len(soi_rules))
        acc.count("bundled.c16.rules_SOI_free", len(nonsilent | silent) - len(soi_rules))
    acc.count("bundled.grammars")
    if len(acc.samples) < 1 and cases:
        r, i, s = cases[min(3, len(cases) - 1)]
        acc.sample({"bundled_grammar": key, "rule": r, "input": i[:200], "start": s})
    for k, v in monitor.STATS.items():
        if not k.endswith("max_depth"):
            acc.c[k] += v
    return acc.dump()


def run_bundled(run: Run, prop: str, judges: list[str]) -> None:
    corpus = harvest.build_corpus()
    for n in corpus["notes"]:
        run.notes.append(n)
    run.acc.count("bundled.harvested_cases", corpus.get("harvested_cases", 0))
    shards = []
    for key, g in corpus["grammars"].items():
        if not g["cases"]:
            continue
        shards.append(
            {
                "key": key, "text": g["text"], "cases": g["cases"], "judges": judges, "seed": seed_int(prop, run.seed, "bundled", key),
                "mutants": run.pick(6, 40), "c16_cases": run.pick(25, 80),
            }
        )
    run_workers("pv.checks.bundled", "worker", shards, timeout_s=run.pick(600, 3600), acc=run.acc)


def replay_bundled(prop: str, path: str, v: dict, judges: list[str]) -> int:
    corpus = harvest.build_corpus(with_harvest=v["grammar_key"].startswith("harvested_"))
    g = corpus["grammars"].get(v["grammar_key"])
    if g is None:
        print("bundled grammar not found:", v["grammar_key"])
        return 2
    d = worker({"key": v["grammar_key"], "text": g["text"], "cases": [], "explicit": [[v["rule"], v["input"], 0 if "c16" in judges else v["start"]]], "judges": judges, "seed": 0, "mutants": 0})
    print(f"bundled grammar {v['grammar_key']} rule={v['rule']!r} input={v['input']!r} start={v['start']} mode={v['mode']}")
    if d["nviol"] or d["violations"]:
        for x in d["violations"]:
            print("reproduced:", x["judge"], x["mode"], "expected", x["expected"], "observed", x["observed"])
        print(f"VIOLATION property={prop} replay={path}")
        return 1
    print("not reproduced")
    return 0
