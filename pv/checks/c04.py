"""C04 - implicit WHITESPACE/COMMENT and atomicity modifiers (reference-model monitor)."""

from __future__ import annotations

import random

from pv import engine
from pv.common import Run, run_workers, seed_int
from pv.gen import grammars as G

PROP = "C04"
JUDGES = ["ref"]
MODES = ["I", "GI", "O", "GO"]


def shards_for(run: Run) -> list[dict]:
    shards = []
    nrand = run.pick(110, 1200)
    for j in range(16):
        shards.append(
            {
                "prop": PROP, "judges": JUDGES, "modes": MODES, "source": "random", "profile": "trivia",
                "seed": seed_int(PROP, run.seed, j), "count": nrand, "cap": run.pick(260, 600), "maxlen": run.pick(4, 5),
                "extra_alpha": " #", "sample_at": 300 * j, "profile_overrides": {"trivia_explicit": j % 2 == 0, "trivia_refs": j % 4 in (1, 2)},
                "rename": j % 4 >= 2, "long_inputs": 2 if j % 4 == 0 else 0,
            }
        )
    idx = list(range(G.matrix_size()))
    rnd = random.Random(seed_int(PROP, run.seed, "m"))
    if run.quick:
        idx = rnd.sample(idx, 1400)
    else:
        rnd.shuffle(idx)
    for j in range(16):
        shards.append(
            {
                "prop": PROP, "judges": JUDGES, "modes": MODES, "source": "matrix", "indices": idx[j::16], "matrix_filter": "nostack",
                "seed": seed_int(PROP, run.seed, "mx", j), "cap": run.pick(300, 700), "maxlen": 4, "extra_alpha": " #", "sample_at": 10**9,
            }
        )
    from pv.checks import _engine_check as E

    shards += E.scale_shards(PROP, run, JUDGES, modes=MODES)
    return shards


def main(tier: str, seed: int) -> int:
    run = Run(PROP, tier, seed)
    run_workers("pv.engine", "worker", shards_for(run), timeout_s=run.pick(900, 7200), acc=run.acc)
    return run.finish(
        rule=(
            "seeded random grammars with none/one/both of WHITESPACE and COMMENT (silent or not, single- and multi-element bodies) and "
            "any mix of _, @, $, ! rules, plus the construct x context x modifier x trivia-configuration matrix; inputs: all strings over "
            "the grammar's alphabet + {space, #} up to the exhaustive length, plus derivations with trivia sprinkled in; 4 modes vs the "
            "reference evaluator (trees compared, so trivia pairs and hidden/visible inner pairs are judged). distinct_nontrivial = "
            "distinct (grammar, input) cases judged where the reference matches or the input is non-empty."
        ),
        assumptions=[
            "pv/ref/refpeg.py: skip = (WHITESPACE | COMMENT)* between sequence elements and inside further iterations of e*, only in non-atomic context; "
            "@ hides inner pairs except under nested $/! rules; trivia bodies are atomic",
            "abstains when a trivia rule or an iteration matches empty",
        ],
        evaluations_key="parses",
        floors={
            "parses": 20000, "ref.comparisons": 20000, "ref.skip_consumed": 500, "ref.skip_given_back_after_last_iteration": 50,
            "ref.skip_between_iterations": 50, "ref.pairs_hidden_by_atomic": 50, "ref.nonatomic_rule_reenabled_trivia": 5,
        },
    )


def replay(path: str) -> int:
    return engine.replay_violation(PROP, path, JUDGES)
