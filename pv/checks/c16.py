"""C16 - parsing from start_pos equals parsing the suffix, shifted (metamorphic)."""

from __future__ import annotations

from pv.checks import _engine_check as E
from pv.common import Run

PROP = "C16"
JUDGES = ["c16"]


def main(tier: str, seed: int) -> int:
    run = Run(PROP, tier, seed)
    nos = {"more_builtins": True, "soi": False, "push_empty": True, "trivia_refs": True, "trivia_explicit": True, "zero_counts": True, "zero_width_stack_reps": True, "skipuntil_ci": True, "ci_nonascii": True}
    extra = {"extra_alpha": " #", "profile_overrides": nos, "c16_inputs": run.pick(40, 120)}
    shards = []
    shards += E.random_shards(PROP, run, JUDGES, profile="full", count=run.pick(45, 500), cap=run.pick(60, 160), maxlen=run.pick(3, 4), extra=extra)
    shards += E.random_shards(PROP, run, JUDGES, profile="stack", count=run.pick(25, 300), cap=run.pick(60, 160), maxlen=4, extra={"c16_inputs": run.pick(40, 120), "profile_overrides": {"zero_width_stack_reps": True, "push_empty": True}})
    import random as _random

    from pv.gen import grammars as G

    dig = list(range(G.stack_dig_size()))
    _random.Random(E.seed_int(PROP, run.seed, "dig")).shuffle(dig)
    if run.quick:
        dig = dig[:800]
    for j in range(16):
        shards.append({"prop": PROP, "judges": JUDGES, "modes": ["I", "GI", "O", "GO"], "source": "stackdig", "indices": dig[j::16], "seed": E.seed_int(PROP, run.seed, "dg", j), "cap": 30, "maxlen": 2, "c16_inputs": 30, "sample_at": 10**9})
        shards.append({"prop": PROP, "judges": JUDGES, "modes": ["I", "GI", "O", "GO"], "source": "stackscen", "seed": E.seed_int(PROP, run.seed, "sc", j), "count": run.pick(25, 300), "cap": 60, "maxlen": 4, "c16_inputs": 40, "sample_at": 10**9})
    shards += E.random_shards(PROP, run, JUDGES, profile="trivia", count=run.pick(25, 300), cap=run.pick(60, 160), maxlen=3, extra=extra)
    shards += E.matrix_shards(PROP, run, JUDGES, sample=run.pick(1200, 0), cap=run.pick(60, 160), maxlen=3, extra={"c16_inputs": run.pick(30, 100)})
    E.execute(run, shards)
    from pv.checks import bundled

    bundled.run_bundled(run, PROP, JUDGES)
    return run.finish(
        rule=(
            "SOI-free grammars (static check incl. helper rules) of all profiles - stack, trivia, SkipUntil patterns, squashed choices, CI strings - "
            "x inputs x ALL k in 0..len x 4 modes: parse(r, t, start_pos=k) is compared with parse(r, t[k:]) shifted by k (trees, and failure "
            "position + expected/unexpected names), and again with the k characters before start_pos replaced by different characters; plus bundled "
            "SOI-free grammars on corpus lines embedded at offsets. distinct_nontrivial = distinct (grammar, input) cases run."
        ),
        assumptions=["relative property: each mode is compared with itself", "grammars using SOI anywhere are excluded"],
        evaluations_key="c16.comparisons",
        floors={"c16.comparisons": 20000, "c16.prefix_variations": 10000, "c16.failing_parses": 2000, "c16.k_class.interior": 2000, "c16.k_class.len": 1000},
    )


def replay(path: str) -> int:
    return E.replay(PROP, path, JUDGES)
