"""C03 - core PEG operators follow pest's matching semantics (reference-model monitor)."""

from __future__ import annotations

from pv import engine
from pv.common import Run, run_workers, seed_int
from pv.gen import grammars as G

PROP = "C03"
JUDGES = ["ref"]
MODES = ["I", "GI", "O", "GO"]


def shards_for(run: Run) -> list[dict]:
    shards = []
    nrand = run.pick(150, 1500)
    for j in range(16):
        shards.append(
            {
                "prop": PROP, "judges": JUDGES, "modes": MODES, "source": "random", "profile": "core",
                "seed": seed_int(PROP, run.seed, j), "count": nrand, "cap": run.pick(250, 700), "maxlen": run.pick(4, 5),
                "sample_at": 200 * j, "rename": j % 4 == 3, "long_inputs": 2 if j % 4 == 1 else 0, "profile_overrides": {"more_builtins": j % 2 == 0},
            }
        )
    # exhaustive stratum: ALL expression trees of depth <= 2 over the core terminals (x all strings over the alphabet up to length 4);
    # thorough: a seeded sample of the depth-3 trees on top
    n2 = len(G.core_trees(2))
    for j in range(16):
        shards.append({"prop": PROP, "judges": JUDGES, "modes": MODES, "source": "coretrees", "depth": 2, "indices": list(range(n2))[j::16], "seed": seed_int(PROP, run.seed, "ct", j), "cap": 700, "maxlen": 4, "extra_alpha": "abAc", "sample_at": 10**9})
    if not run.quick:
        import random as _r

        n3 = len(G.core_trees(3))
        idx3 = _r.Random(seed_int(PROP, run.seed, "ct3")).sample(range(n2, n3), 20000)
        for j in range(16):
            shards.append({"prop": PROP, "judges": JUDGES, "modes": MODES, "source": "coretrees", "depth": 3, "indices": idx3[j::16], "seed": seed_int(PROP, run.seed, "ct3", j), "cap": 400, "maxlen": 4, "extra_alpha": "abAc", "sample_at": 10**9})
    # context matrix without trivia (index range of trivia cfg "none"), stack constructs excluded
    per_cfg = len(G.CONSTRUCTS) * len(G.CONTEXTS) * len(G.MODIFIERS)
    idx = [i for i in range(per_cfg) if (i // (len(G.CONSTRUCTS) * len(G.CONTEXTS))) % len(G.MODIFIERS) in (0, 1)]
    if run.quick:
        import random

        idx = random.Random(seed_int(PROP, run.seed, "m")).sample(idx, 900)
    for j in range(16):
        shards.append(
            {
                "prop": PROP, "judges": JUDGES, "modes": MODES, "source": "matrix", "indices": idx[j::16], "matrix_filter": "core",
                "seed": seed_int(PROP, run.seed, "mx", j), "cap": run.pick(300, 800), "maxlen": 4, "sample_at": 10**9,
            }
        )
    from pv.checks import _engine_check as E

    shards += E.scale_shards(PROP, run, JUDGES, modes=MODES)
    return shards


def main(tier: str, seed: int) -> int:
    run = Run(PROP, tier, seed)
    run_workers("pv.engine", "worker", shards_for(run), timeout_s=run.pick(900, 7200), acc=run.acc)
    return run.finish(
        rule=(
            "EXHAUSTIVE: every expression tree of depth <= 2 over 11 core terminals and 11 operators as a rule body (thorough: + 20 000 sampled depth-3 trees), "
            "each on all strings over its alphabet up to length 4; plus seeded random well-formed grammars over the core operators (1-5 rules, normal/silent) and the no-trivia slice of the "
            "construct x context matrix; per grammar ALL strings over its own alphabet up to the exhaustive length recorded in the "
            "counters, plus derivation-guided longer inputs; every case parsed in 4 modes and compared with the reference PEG evaluator. "
            "distinct_nontrivial = distinct (grammar, input) cases judged where the reference matches or the input is non-empty."
        ),
        assumptions=[
            "pv/ref/refpeg.py is pest's semantics (ordered choice, greedy repetition, bounded repetitions as unrolled sequences, predicates consume nothing)",
            "the reference abstains where the statement leaves behaviour open (empty iterations, non-ASCII under ^\"..\")",
        ],
        evaluations_key="parses",
        floors={"parses": 20000, "ref.comparisons": 20000, "ref.choice_took_later_alternative": 100, "ref.star_iterations": 100},
    )


def replay(path: str) -> int:
    return engine.replay_violation(PROP, path, JUDGES)
