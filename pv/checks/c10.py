"""C10 - the grammar front end accepts exactly pest v2 syntax with the denoted structure.

Oracle: pest's own meta-grammar executed by the reference PEG evaluator (pv.ref.metafront).
An adapter walks python-pest's rule objects into the same denotation AST.
"""

from __future__ import annotations

import random

from pv import adapter
from pv.checks.c11 import bundled_files
from pv.common import Acc, Run, load_replay, open_findings, run_workers, seed_int
from pv.gen import gtexts
from pv.ref import metafront

# Open findings of the front end (mechanism -> oracle-side trigger feature + controlled normalisation).
# The ids must be listed in KNOWN_FINDINGS.json for a hit to be reported as KNOWN-FINDING.
FINDING_OF_FEATURE = {
    "tag_on_term_with_postfix": "D-F11",
    "tag_on_untaggable_node": "D-F12",
}


def normalise_for_findings(e, feats: set[str]):
    """Controlled normalisation of the DENOTATION for findings that are recorded rather than repaired."""
    k = e[0]
    if k == "tag":
        inner = normalise_for_findings(e[2], feats)
        # D-F12: a tag on a string / case-insensitive string / built-in reference is dropped by the loader
        if inner[0] in ("str", "ci", "builtin", "any", "soi", "newline") or (inner[0] == "ref" and inner[1] in metafront.builtin_names()):
            return inner
        # D-F11: the loader attaches the tag to the node instead of the whole term when postfix operators follow
        post = []
        cur = inner
        while cur[0] in ("opt", "star", "plus", "exact", "min", "max", "minmax"):
            post.append(cur)
            cur = cur[1]
        if post:
            if cur[0] in ("str", "ci", "builtin", "any", "soi", "newline") or (cur[0] == "ref" and cur[1] in metafront.builtin_names()):
                node = cur
            else:
                node = ("tag", e[1], cur)
            for p in reversed(post):
                node = (p[0], node) + tuple(p[2:])
            return node
        return ("tag", e[1], inner)
    if k in ("seq", "alt"):
        return (k, [normalise_for_findings(x, feats) for x in e[1]])
    if k in ("opt", "star", "plus", "and", "not", "push", "group"):
        return (k, normalise_for_findings(e[1], feats))
    if k in ("exact", "min", "max"):
        return (k, normalise_for_findings(e[1], feats), e[2])
    if k == "minmax":
        return (k, normalise_for_findings(e[1], feats), e[2], e[3])
    return e


def load_impl(text: str):
    """-> ("Parser", parser) | ("reject", message) | ("escaped", type name)."""
    from pest import Parser, PestGrammarError

    try:
        return "Parser", Parser.from_grammar(text, optimizer=None)
    except PestGrammarError as e:
        try:
            return "reject", str(e).splitlines()[0][:80]
        except Exception:  # noqa: BLE001
            return "reject", "(message does not render)"
    except RecursionError:
        return "escaped", "RecursionError"
    except Exception as e:  # noqa: BLE001
        return "escaped", type(e).__name__


def compare(text: str, oracle: metafront.MetaOracle):
    """-> (verdict, detail dict).  verdict in agree-accept / agree-reject / abstain / known:<ids> / VIOLATION."""
    try:
        o = oracle.parse(text)
    except metafront.OutOfScope as s:
        return "abstain", {"why": str(s)}
    kind, got = load_impl(text)
    if o is None:
        if kind == "Parser":
            return "VIOLATION", {"what": "accepts a text that is not a pest v2 grammar", "oracle": "reject", "impl": "Parser"}
        return "agree-reject", {}
    g, feats, _sites = o
    if kind != "Parser":
        return "VIOLATION", {"what": "rejects a valid pest v2 grammar", "oracle": "accept", "impl": f"{kind}: {got}", "features": sorted(feats)}
    try:
        act = adapter.loaded_structure(got)
    except Exception as e:  # noqa: BLE001
        # the adapter reads internal classes; if it cannot, the harness is out of date, not the repository wrong
        return "harness-error", {"why": f"{type(e).__name__}: {e}"}
    exp_rules = {}
    for r in g["rules"]:
        exp_rules[r["name"]] = r  # later definitions win
    # the statement names the rules' properties, not their order in a table
    names_exp = sorted(exp_rules)
    names_act = sorted(r["name"] for r in act["rules"])
    if names_exp != names_act:
        return "VIOLATION", {"what": "rule names differ", "expected": names_exp, "observed": names_act}
    if list(g["doc"]) != list(act["doc"]):
        return "VIOLATION", {"what": "grammar documentation differs", "expected": g["doc"], "observed": act["doc"]}
    hit: set[str] = set()
    for ra in act["rules"]:
        re_ = exp_rules[ra["name"]]
        if re_["modifier"] != ra["modifier"]:
            return "VIOLATION", {"what": f"modifier of rule {ra['name']} differs", "expected": re_["modifier"], "observed": ra["modifier"]}
        if list(re_["doc"]) != list(ra["doc"]):
            return "VIOLATION", {"what": f"documentation of rule {ra['name']} differs", "expected": re_["doc"], "observed": ra["doc"]}
        if re_["expr"] != ra["expr"]:
            trig = {f for f in feats if f in FINDING_OF_FEATURE}
            if trig and normalise_for_findings(re_["expr"], feats) == ra["expr"]:
                hit |= {FINDING_OF_FEATURE[f] for f in trig}
                continue
            return "VIOLATION", {"what": f"structure of rule {ra['name']} differs", "expected": re_["expr"], "observed": ra["expr"], "features": sorted(feats)}
    if hit:
        return "known:" + ",".join(sorted(hit)), {"features": sorted(feats)}
    return "agree-accept", {"features": sorted(feats)}


def judge(text: str, source: str, oracle, acc: Acc, vk: dict) -> None:
    verdict, detail = compare(text, oracle)
    acc.count("texts")
    acc.count("source." + source)
    acc.count("verdict." + verdict.split(":")[0])
    if verdict == "agree-accept":
        acc.count("structure_comparisons")
        for f in detail.get("features", []):
            acc.count("feature." + f)
        acc.nontrivial(text)
    elif verdict == "agree-reject":
        if text.strip():
            acc.nontrivial(text)
    elif verdict.startswith("known:"):
        acc.count("structure_comparisons")
        for fid in verdict[6:].split(","):
            acc.known_hit(fid, {"text": text[:200]})
    elif verdict == "harness-error":
        acc.inconclusive.append("adapter cannot walk the loaded rule objects: " + detail["why"])
    elif verdict == "VIOLATION":
        key = (detail["what"].split(" of rule")[0], detail.get("impl", "")[:40])
        n = vk.get(key, [])
        vk[key] = n
        n.append((len(text), {"text": text, "source": source, **detail}))
        n.sort(key=lambda t: t[0])
        del n[3:]
        acc.count("violations_seen")


def worker(shard: dict) -> dict:
    acc = Acc()
    vk: dict = {}
    oracle = metafront.MetaOracle()
    kind = shard["kind"]
    if kind == "generated":
        for i in range(shard["count"]):
            r2 = random.Random(seed_int(shard["seed"], i))
            c = i % 5
            if c in (0, 3):
                t = gtexts.Deriver(r2, clean=(c == 3)).grammar()
                src = "derivation"
            else:
                t = gtexts.printed_grammar(r2, noisy=(c != 2))
                src = "printed_ast"
            judge(t, src, oracle, acc, vk)
            for _ in range(shard["mutants"]):
                if r2.random() < 0.5:
                    judge(gtexts.mutate_char(r2, t), "char_mutant", oracle, acc, vk)
                else:
                    judge(gtexts.mutate_token(r2, t), "token_mutant", oracle, acc, vk)
            if i < 2:
                acc.sample({"source": src, "text": t[:300]})
    elif kind == "escapes":
        rnd = random.Random(shard["seed"])
        for i in range(shard["count"]):
            judge(gtexts.escape_text(rnd), "escape_form", oracle, acc, vk)
    elif kind == "bundled":
        with open(shard["file"], encoding="utf-8") as fd:
            t = fd.read()
        judge(t, "bundled_file", oracle, acc, vk)
        rnd = random.Random(shard["seed"])
        for _ in range(shard["mutants"]):
            judge(gtexts.mutate_token(rnd, t) if rnd.random() < 0.6 else gtexts.mutate_char(rnd, t), "bundled_mutant", oracle, acc, vk)
    elif kind == "facts":
        for t in metafront.FACTS_ACCEPT + metafront.FACTS_REJECT + [x for x, _ in metafront.FACTS_STRUCT] + gtexts.EDGE_TEXTS:
            judge(t, "fact_table", oracle, acc, vk)
        # every listed open finding's witness is run explicitly; one that no longer fails is reported as stale (not an alarm)
        for fid, f in open_findings("C10").items():
            w = f.get("witness", {}).get("text")
            if w is None:
                continue
            verdict, _d = compare(w, oracle)
            acc.count("known_finding_witnesses_run")
            if verdict.startswith("known:") and fid in verdict:
                acc.known_hit(fid, {"text": w, "witness": True})
            elif verdict == "agree-accept":
                acc.add_to("stale_findings", fid)
                acc.count("stale_finding_witnesses")
            elif verdict == "VIOLATION":
                judge(w, "finding_witness", oracle, acc, vk)
    for _k, lst in vk.items():
        for _n, d in lst:
            acc.violation("c10", d)
    acc.nviol = max(acc.nviol, acc.c["violations_seen"])
    for name, n in oracle.rule_hits.items():
        acc.c["meta_production_hits." + name] += n
    return acc.dump()


def main(tier: str, seed: int) -> int:
    run = Run("C10", tier, seed)
    try:
        metafront.selftest()
    except AssertionError as e:
        run.acc.inconclusive.append(f"meta-grammar oracle self-test failed: {e}")
        return run.finish(rule="oracle self-test failed", assumptions=[], evaluations_key="texts")
    shards: list[dict] = []
    for j in range(32):
        shards.append({"kind": "generated", "seed": seed_int("C10", seed, j), "count": run.pick(300, 2500), "mutants": run.pick(4, 6)})
    for f in bundled_files():
        shards.append({"kind": "bundled", "file": f, "seed": seed_int("C10", seed, f), "mutants": run.pick(60, 400)})
    shards.append({"kind": "facts", "seed": 0})
    for j in range(8):
        shards.append({"kind": "escapes", "seed": seed_int("C10", seed, "esc", j), "count": run.pick(500, 8000)})
    run_workers("pv.checks.c10", "worker", shards, timeout_s=run.pick(900, 7200), acc=run.acc)
    # keep the shortest witnesses per kind
    vs = sorted(run.acc.violations, key=lambda v: len(v.get("text", "")))
    seen: dict[str, int] = {}
    kept = []
    for v in vs:
        k = v["what"].split(" of rule")[0] + "|" + v.get("impl", "")[:40]
        if seen.get(k, 0) < 2:
            seen[k] = seen.get(k, 0) + 1
            kept.append(v)
    run.acc.violations = kept[:40]
    hits = {k[len("meta_production_hits.") :]: v for k, v in run.acc.c.items() if k.startswith("meta_production_hits.")}
    for k in list(run.acc.c):
        if k.startswith("meta_production_hits."):
            del run.acc.c[k]
    from pv.ref.meta_literal import META

    never = sorted(n for n, (m, _x) in META.items() if m != "_" and n not in hits and n not in ("WHITESPACE", "COMMENT"))
    return run.finish(
        rule=(
            "grammar texts: seeded derivations of pest's meta-grammar (trivia - spaces, newlines, CRLF, line and nested block comments - at every "
            "legal place; pools for identifiers incl. keyword look-alikes, string and character bodies incl. every escape form), printed random "
            "ASTs under tight / spaced / noisy formatting, all bundled .pest files, single-character and single-token mutants of all of these, a "
            "table of hand-written accept/reject/structure facts and edge texts. Each text is classified by the oracle (nothing is assumed valid); "
            "acceptance must agree, and for texts accepted by both: rule names and order, modifiers, grammar and rule docs and the whole expression "
            "structure (operator kinds, grouping, prefix/postfix chains, bounds, tags, PEEK slices, decoded literals). distinct_nontrivial = "
            "distinct non-blank texts on which both sides agreed after a full comparison."
        ),
        assumptions=[
            "pv/ref/meta_literal.py is tests/grammars/meta.pest (fix-point self-test at every run) and pv/ref/metafront.py converts like pest_meta's consume_rules",
            "out of scope (abstain): \\u{} values that are not scalar values, counts > 64, nesting > 40",
        ],
        evaluations_key="texts",
        floors={"texts": 10000, "verdict.agree-accept": 1500, "verdict.agree-reject": 3000, "structure_comparisons": 1500, "source.bundled_file": 10},
        extra={"meta_production_hits": dict(sorted(hits.items())), "meta_productions_never_hit": never},
    )


def replay(path: str) -> int:
    v = load_replay(path)["violation"]
    verdict, detail = compare(v["text"], metafront.MetaOracle())
    print(f"text={v['text']!r}\n -> {verdict} {detail}")
    if verdict == "VIOLATION" or (verdict.startswith("known:") and not set(verdict[6:].split(",")) <= set(open_findings("C10"))):
        print(f"VIOLATION property=C10 replay={path}")
        return 1
    print("not reproduced")
    return 0
