"""C14 - Position / Span / line-column utilities agree with the text.

Reference model (written from the statement, not from pairs.py):
    line(p) = 1 + text.count("\\n", 0, p)
    col(p)  = p - (text.rfind("\\n", 0, p) + 1) + 1
Every text over a small alphabet containing "\\n" up to a length bound, every offset
0..len and every span a <= b is checked (exhaustive stratum); long / non-ASCII texts are
sampled.  Texts containing other str.splitlines() separators are out of the statement
(it fixes "\\n") and are never generated.
"""

from __future__ import annotations

import itertools
import random

from pv.common import Acc, Run, load_replay, run_workers, seed_int


def ref_line_col(text: str, p: int) -> tuple[int, int]:
    return 1 + text.count("\n", 0, p), p - (text.rfind("\n", 0, p) + 1) + 1


def ref_lines(text: str) -> list[str]:
    """Lines without terminators; a trailing newline does not open a further line."""
    if not text:
        return []
    parts = text.split("\n")
    if text.endswith("\n"):
        parts.pop()
    return parts


def strip_nl(s: str) -> str:
    return s[:-1] if s.endswith("\n") else s


class Bad(Exception):
    def __init__(self, what, expected, observed):
        super().__init__(what)
        self.what, self.expected, self.observed = what, expected, observed


def check_offset(text: str, p: int, acc: Acc | None) -> None:
    from pest import Pair, Position, RuleFrame

    exp = ref_line_col(text, p)
    try:
        got = Position(text, p).line_col()
    except Exception as e:  # noqa: BLE001
        raise Bad("Position.line_col raised", exp, f"{type(e).__name__}: {e}") from None
    if tuple(got) != exp:
        raise Bad("Position.line_col", exp, got)
    # offsets and line/col determine each other: invert with the reference
    lines = text.split("\n")
    back = sum(len(x) + 1 for x in lines[: got[0] - 1]) + got[1] - 1
    if back != p:
        raise Bad("line/col does not map back to the offset", p, back)
    # line_of: the line containing p (terminator optional)
    ls = text.rfind("\n", 0, p) + 1
    le = text.find("\n", p)
    want = text[ls : (le if le != -1 else len(text))]
    try:
        lo = Position(text, p).line_of()
    except Exception as e:  # noqa: BLE001
        raise Bad("Position.line_of raised", want, f"{type(e).__name__}: {e}") from None
    if not isinstance(lo, str) or strip_nl(lo) != want:
        raise Bad("Position.line_of", want, lo)
    try:
        plc = Pair(text, p, p, RuleFrame("r", 0)).line_col()
    except Exception as e:  # noqa: BLE001
        raise Bad("Pair.line_col raised", exp, f"{type(e).__name__}: {e}") from None
    if tuple(plc) != exp:
        raise Bad("Pair.line_col", exp, plc)
    if acc is not None:
        acc.count("offsets_checked")
        cls = "end_of_text" if p == len(text) else ("line_start" if exp[1] == 1 else "interior")
        if p == len(text) and text.endswith("\n"):
            cls = "after_trailing_newline"
        acc.count(f"offset_class.{cls}")


def check_span(text: str, a: int, b: int, acc: Acc | None) -> None:
    from pest import Pair, Position, RuleFrame, Span

    sp = Span(text, a, b)
    try:
        if str(sp) != text[a:b] or sp.as_str() != text[a:b]:
            raise Bad("str(span)", text[a:b], str(sp))
        s0, e0 = sp.start_pos(), sp.end_pos()
        if tuple(s0) != (text, a) or tuple(e0) != (text, b) or not isinstance(s0, Position):
            raise Bad("Span.start_pos/end_pos", ((text, a), (text, b)), (tuple(s0), tuple(e0)))
        sa, sb = sp.split()
        if tuple(sa) != (text, a) or tuple(sb) != (text, b):
            raise Bad("Span.split", ((text, a), (text, b)), (tuple(sa), tuple(sb)))
        if tuple(sa.line_col()) != ref_line_col(text, a) or tuple(sb.line_col()) != ref_line_col(text, b):
            raise Bad("Span.split() positions' line_col", (ref_line_col(text, a), ref_line_col(text, b)), (sa.line_col(), sb.line_col()))
        got = sp.lines()
        pr = Pair(text, a, b, RuleFrame("r", 0))
        if tuple(pr.span()) != (text, a, b) or pr.text != text[a:b] or str(pr) != text[a:b]:
            raise Bad("Pair.span/text", (text, a, b), tuple(pr.span()))
    except Bad:
        raise
    except Exception as e:  # noqa: BLE001
        raise Bad("span utility raised", "no exception", f"{type(e).__name__}: {e}") from None
    all_lines = ref_lines(text)
    la, lb = ref_line_col(text, a)[0], ref_line_col(text, b)[0]
    full = all_lines[la - 1 : lb]  # lines numbered la..lb that exist
    accept = [full]
    # an exclusive end sitting at column 1 of a later line does not have to count as touched
    if b > a and ref_line_col(text, b)[1] == 1 and lb > la:
        accept.append(all_lines[la - 1 : lb - 1])
    if not isinstance(got, list) or [strip_nl(x) for x in got] not in accept:
        raise Bad("Span.lines", accept, got)
    if acc is not None:
        acc.count("spans_checked")
        if lb > la:
            acc.count("spans_crossing_lines")


def judge_text(text: str, acc: Acc, spans: bool = True, span_pairs=None) -> None:
    acc.count("texts")
    n = len(text)
    try:
        for p in range(n + 1):
            check_offset(text, p, acc)
        if spans:
            it = span_pairs if span_pairs is not None else ((a, b) for a in range(n + 1) for b in range(a, n + 1))
            for a, b in it:
                check_span(text, a, b, acc)
    except Bad as e:
        key = e.what
        seen = acc.sets.setdefault("_viol_keys", set())
        if key in seen:
            acc.nviol += 1
            return
        seen.add(key)
        acc.violation("position-utility-mismatch", {"text": text, "what": e.what, "expected": e.expected, "observed": e.observed})
        return
    if "\n" in text:
        acc.nontrivial(text)


def worker(shard: dict) -> dict:
    acc = Acc()
    if shard["mode"] == "exhaustive":
        alpha = shard["alpha"]
        prefix = shard["prefix"]
        for L in range(len(prefix), shard["maxlen"] + 1):
            for rest in itertools.product(alpha, repeat=L - len(prefix)):
                t = prefix + "".join(rest)
                judge_text(t, acc)
                if acc.c["texts"] == 5 + shard.get("k", 0):
                    acc.sample({"text": t, "offsets": len(t) + 1, "spans": (len(t) + 1) * (len(t) + 2) // 2})
    else:
        rnd = random.Random(shard["seed"])
        pool = ["a", "b", " ", "\t", "x", "é", "ß", "𝄞", "中", "́", "\ud800"]
        for k in range(shard["count"]):
            n = rnd.choice([0, 1, 2, 10, 40, 200, 1500])
            if k % 25 == 7:
                # texts of thousands of lines: offsets around powers of two and near both ends are added below
                n = rnd.choice([5000, 20000, 70000])
                acc.count("very_long_texts")
            dens = rnd.choice([0.02, 0.1, 0.3, 0.6])
            t = "".join("\n" if rnd.random() < dens else rnd.choice(pool) for _ in range(n))
            if rnd.random() < 0.3 and t:
                t = t.rstrip("\n") + rnd.choice(["", "\n", "\n\n"])
            if n <= 40:
                judge_text(t, acc)
            else:
                offs = sorted({0, len(t), *(rnd.randrange(len(t) + 1) for _ in range(30)), *(i for i, ch in enumerate(t) if ch == "\n" and rnd.random() < (0.1 if n <= 1500 else 0.002))})
                if n > 1500:
                    edge = {p + d for e in range(7, 17) for p in (1 << e,) for d in (-1, 0, 1)} | {1, 2, len(t) - 1, len(t) - 2}
                    offs = sorted(set(offs) | {p for p in edge if 0 <= p <= len(t)})
                    acc.maxi("longest_text", len(t))
                    acc.maxi("most_lines", t.count("\n") + 1)
                prs = [(a, b) for a in offs[::3] for b in offs if b >= a][:200]
                acc.count("texts")
                try:
                    for p in offs:
                        check_offset(t, p, acc)
                    for a, b in prs:
                        check_span(t, a, b, acc)
                    acc.nontrivial(t)
                except Bad as e:
                    acc.violation("position-utility-mismatch", {"text": t, "what": e.what, "expected": e.expected, "observed": e.observed})
            if k == 0:
                acc.sample({"sampled_text_len": len(t), "text_head": t[:40]})
    return acc.dump()


def main(tier: str, seed: int) -> int:
    run = Run("C14", tier, seed)
    La = run.pick(7, 10)
    Lb = run.pick(5, 6)
    shards = []
    for i, pre in enumerate(["".join(p) for p in itertools.product("ab\n", repeat=2)]):
        shards.append({"mode": "exhaustive", "alpha": "ab\n", "prefix": pre, "maxlen": La, "k": (seed + i) % 7})
    shards.append({"mode": "exhaustive", "alpha": "ab\n", "prefix": "", "maxlen": 1})
    for i, pre in enumerate("é𝄞\n"):
        shards.append({"mode": "exhaustive", "alpha": "é𝄞\n", "prefix": pre, "maxlen": Lb, "k": i})
    for j in range(8):
        shards.append({"mode": "random", "seed": seed_int("C14", seed, j), "count": run.pick(60, 1500)})
    run_workers("pv.checks.c14", "worker", shards, timeout_s=run.pick(300, 3600), acc=run.acc)
    return run.finish(
        rule=(
            f"exhaustive: all texts over {{a,b,\\n}} up to length {La} and over {{é,𝄞,\\n}} up to length {Lb}, every offset 0..len and "
            "every span a<=b; plus seeded long/non-ASCII texts (sampled offsets). distinct_nontrivial = distinct texts containing at "
            "least one line break on which every check was evaluated."
        ),
        assumptions=[
            "line breaks are '\\n' only (the statement); other splitlines() separators are never generated",
            "line_of()/lines() may or may not keep the line terminator; an exclusive span end at column 1 may or may not count as touching that line",
        ],
        evaluations_key="offsets_checked",
        floors={"offsets_checked": 5000, "spans_checked": 5000, "offset_class.end_of_text": 100, "offset_class.after_trailing_newline": 100},
        exhaustive=True,
        extra={"bounds": {"ascii_len": La, "nonascii_len": Lb}},
    )


def replay(path: str) -> int:
    v = load_replay(path)["violation"]
    acc = Acc()
    judge_text(v["text"], acc)
    if acc.nviol or acc.violations:
        print("reproduced:", acc.violations[0])
        print(f"VIOLATION property=C14 replay={path}")
        return 1
    print("not reproduced")
    return 0


def selftest() -> None:
    assert ref_line_col("ab\ncd", 3) == (2, 1) and ref_line_col("ab\ncd", 5) == (2, 3) and ref_line_col("", 0) == (1, 1)
    assert ref_line_col("a\n", 2) == (2, 1) and ref_lines("a\n") == ["a"] and ref_lines("a\n\nb") == ["a", "", "b"]
