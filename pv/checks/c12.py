"""C12 - character terminals and escapes denote exactly the specified code points.

Each membership test is literally the property's observation: one `parse("r", chr(c))`
call on the one-rule grammar `r = { X }`, in each of the four execution modes, compared
with a set predicate on ord(c) written from the pest book tables.  Sweeps cover all
1,114,112 code points (surrogates included: they are legal Python str elements).

Unicode property rules are judged by cross-mode agreement only (regex's Unicode tables are
a different version from unicodedata's, an absolute oracle would false-alarm).
Case-insensitive literals are judged on ASCII input only (the statement).
"""

from __future__ import annotations

import random

from pv.common import Acc, Run, load_replay, run_workers, seed_int
from pv.modes import Modes

MAXCP = 0x110000


def _rng(a, b):
    return lambda c, a=ord(a) if isinstance(a, str) else a, b=ord(b) if isinstance(b, str) else b: a <= c <= b


def _any(*preds):
    return lambda c: any(p(c) for p in preds)


def _chars(s):
    st = {ord(x) for x in s}
    return lambda c: c in st


def u(cp: int) -> str:
    return "\\u{%04X}" % cp


def ch(x: str) -> str:
    """pest character literal for x."""
    if x == "'":
        return "'\\''"
    if x == "\\":
        return "'\\\\'"
    if x < " " or x > "~":
        return "'" + u(ord(x)) + "'"
    return f"'{x}'"


def lit(x: str) -> str:
    out = []
    for c in x:
        if c == '"':
            out.append('\\"')
        elif c == "\\":
            out.append("\\\\")
        elif c < " " or c > "~":
            out.append(u(ord(c)))
        else:
            out.append(c)
    return '"' + "".join(out) + '"'


def R(a: str, b: str):
    return f"{ch(a)}..{ch(b)}", _rng(a, b)


# (id, expression text, predicate, universe)   universe: "all" or "ascii"
def specs() -> list[tuple[str, str, object, str]]:
    out: list[tuple[str, str, object, str]] = []

    def add(i, text, pred, uni="all"):
        out.append((i, text, pred, uni))

    d, lo, up = _rng("0", "9"), _rng("a", "z"), _rng("A", "Z")
    add("ASCII_DIGIT", "ASCII_DIGIT", d)
    add("ASCII_NONZERO_DIGIT", "ASCII_NONZERO_DIGIT", _rng("1", "9"))
    add("ASCII_BIN_DIGIT", "ASCII_BIN_DIGIT", _rng("0", "1"))
    add("ASCII_OCT_DIGIT", "ASCII_OCT_DIGIT", _rng("0", "7"))
    add("ASCII_HEX_DIGIT", "ASCII_HEX_DIGIT", _any(d, _rng("a", "f"), _rng("A", "F")))
    add("ASCII_ALPHA_LOWER", "ASCII_ALPHA_LOWER", lo)
    add("ASCII_ALPHA_UPPER", "ASCII_ALPHA_UPPER", up)
    add("ASCII_ALPHA", "ASCII_ALPHA", _any(lo, up))
    add("ASCII_ALPHANUMERIC", "ASCII_ALPHANUMERIC", _any(d, lo, up))
    add("ASCII", "ASCII", _rng(0, 0x7F))
    add("NEWLINE", "NEWLINE", _chars("\n\r"))
    add("ANY", "ANY", lambda c: True)
    # ranges: case boundaries, regex metacharacters, plane boundaries, single points, case-fold traps
    for a, b in [
        ("a", "z"), ("A", "Z"), ("@", "["), ("`", "{"), ("Z", "a"), ("0", "9"), ("a", "a"), ("K", "K"), ("k", "k"), ("s", "s"), ("S", "S"),
        ("i", "i"), ("I", "I"), ("!", "/"), ("[", "]"), ("\\", "^"), ("#", "&"), ("|", "~"), ("*", "."), ("\x00", "\x7f"), ("\x00", "\x1f"),
        ("\x80", "\xff"), ("\uffff", "\U00010000"), ("\U00010000", "\U0010ffff"), ("\ud7ff", "\ue000"), ("\u00e0", "\u00ff"), ("\u0391", "\u03a9"),
        ("\u212a", "\u212a"), ("\u017f", "\u017f"), ("\x00", "\U0010ffff"), ("-", "-"), ("]", "]"), ("^", "^"),
    ]:
        t, p = R(a, b)
        add(f"range:{t}", t, p)
    # single-character literals
    for x in ["a", "Z", "-", "]", "^", "\\", "[", "&", "~", "|", "#", ".", "$", " ", "\u0130", "\u00df", "'", '"', "\U0001d11e"]:
        add(f"lit:{lit(x)}", lit(x), _chars(x))
    # choices the optimizer merges into one class
    add("choice:lits+range", '"a" | "b" | \'x\'..\'z\'', _any(_chars("ab"), _rng("x", "z")))
    add("choice:adjacent", "'0'..'4' | '5'..'9'", d)
    add("choice:overlap", "'a'..'f' | 'd'..'k'", _rng("a", "k"))
    add("choice:nested", "'a'..'z' | 'm'..'p' | \"q\"", lo)
    add("choice:meta-lits", '"-" | "]" | "^" | "\\\\" | "["', _chars("-]^\\["))
    add("choice:meta-range+lit", "'['..']' | \"a\" | \"-\"", _any(_rng("[", "]"), _chars("a-")))
    add("choice:set-ops-chars", '"&" | "~" | "|" | "-" | "[" | "&"', _chars("&~|-["))
    add("choice:caret-first", '"^" | "a"', _chars("^a"))
    add("choice:builtin-mix", "ASCII_DIGIT | \"_\" | 'a'..'f'", _any(d, _chars("_"), _rng("a", "f")))
    add("choice:alpha|digit", "ASCII_ALPHA | ASCII_DIGIT", _any(d, lo, up))
    add("choice:upper-range+lower-lit", "'A'..'Z' | \"a\"", _any(up, _chars("a")))
    add("choice:astral", "'\\u{10000}'..'\\u{10010}' | \"\\u{1F600}\" | 'a'..'b'", _any(_rng(0x10000, 0x10010), _chars("\U0001f600ab")))
    add("choice:hex", "'0'..'9' | 'a'..'f' | 'A'..'F'", _any(d, _rng("a", "f"), _rng("A", "F")))
    add("choice:space-tab-nl", '" " | "\\t" | "\\n" | "\\r"', _chars(" \t\n\r"))
    add("choice:ci+range", '^"k" | \'0\'..\'1\'', _any(_chars("kK01")), "ascii")
    # size: many alternatives / many ranges in one squashed class (merge loops, class-size thresholds)
    sparse = [0x100 + 7 * i for i in range(200)]
    add("choice:200-sparse-chars", " | ".join('"\\u{%04x}"' % c for c in sparse), lambda c, s_=frozenset(sparse): c in s_)
    many = [(0x400 + 10 * i, 0x400 + 10 * i + 4) for i in range(100)]
    add("choice:100-ranges", " | ".join("'\\u{%04x}'..'\\u{%04x}'" % ab for ab in many), lambda c: 0x400 <= c < 0x400 + 1000 and (c - 0x400) % 10 <= 4)
    rr = random.Random(12)
    mixed = [(a0, a0 + rr.choice([0, 1, 3, 20, 90])) for a0 in (rr.randrange(0x20, 0x2F0) for _ in range(60))]
    add(
        "choice:60-random-overlapping-ranges", " | ".join("'\\u{%04x}'..'\\u{%04x}'" % ab for ab in mixed),
        lambda c, m_=tuple(mixed): any(a0 <= c <= b0 for a0, b0 in m_),
    )
    add("choice:nested-in-middle", "'0'..'9' | '2'..'5' | 'a'..'z' | 'c'..'e' | 'x'..'z'", _any(d, lo))
    # case-insensitive single letters (ASCII input only)
    for x in ["a", "k", "s", "Z", "i", "1", "-"]:
        add(f"ci:{x}", "^" + lit(x), _chars(x.lower() + x.upper()), "ascii")
    # star form of a squashed class (OptimizedChoiceRepeat is only used for SKIP, but e* of a class is common)
    add("seq:class-then-eoi", "('a'..'c' | \"x\") ~ EOI", _any(_rng("a", "c"), _chars("x")))
    return out


def unicode_rule_names() -> list[str]:
    from pest.grammar.rules.unicode import UNICODE_RULES

    return sorted(UNICODE_RULES)


# General categories written from the Unicode standard's names (UAX #44 table 12), not from the repository's table.
GC_OF_RULE = {
    "LETTER": "L*", "CASED_LETTER": "Lu Ll Lt", "UPPERCASE_LETTER": "Lu", "LOWERCASE_LETTER": "Ll", "TITLECASE_LETTER": "Lt", "MODIFIER_LETTER": "Lm",
    "OTHER_LETTER": "Lo", "MARK": "M*", "NONSPACING_MARK": "Mn", "SPACING_MARK": "Mc", "ENCLOSING_MARK": "Me", "NUMBER": "N*", "DECIMAL_NUMBER": "Nd",
    "LETTER_NUMBER": "Nl", "OTHER_NUMBER": "No", "PUNCTUATION": "P*", "CONNECTOR_PUNCTUATION": "Pc", "DASH_PUNCTUATION": "Pd", "OPEN_PUNCTUATION": "Ps",
    "CLOSE_PUNCTUATION": "Pe", "INITIAL_PUNCTUATION": "Pi", "FINAL_PUNCTUATION": "Pf", "OTHER_PUNCTUATION": "Po", "SYMBOL": "S*", "MATH_SYMBOL": "Sm",
    "CURRENCY_SYMBOL": "Sc", "MODIFIER_SYMBOL": "Sk", "OTHER_SYMBOL": "So", "SEPARATOR": "Z*", "SPACE_SEPARATOR": "Zs", "LINE_SEPARATOR": "Zl",
    "PARAGRAPH_SEPARATOR": "Zp", "OTHER": "C*", "CONTROL": "Cc", "FORMAT": "Cf", "SURROGATE": "Cs", "PRIVATE_USE": "Co", "UNASSIGNED": "Cn",
}
# derived properties that CPython answers from its own tables
STR_PROPS = {
    "XID_START": lambda ch: ch != "_" and ch.isidentifier(),
    "XID_CONTINUE": lambda ch: ("a" + ch).isidentifier(),
    "UPPERCASE": lambda ch: ch.isupper(),
    "LOWERCASE": lambda ch: ch.islower(),
}
# Code points whose properties the Unicode standard itself changed after the version of CPython's tables (15.0): U+0295 (gc Ll -> Lo),
# U+200C / U+200D (XID_Continue since 15.1).  The regex library carries newer tables than unicodedata; neither reading is the repository's doing.
UNICODE_VERSION_SKEW = {0x0295, 0x200C, 0x200D}
_STABLE: list[tuple[int, str]] | None = None


def stable_code_points() -> list[tuple[int, str]]:
    """(code point, general category) for code points whose category is the same in Unicode 3.2 and in CPython's current tables
    (so that the version of anybody's tables cannot matter), plus the noncharacters (Cn for ever).  The two huge uniform blocks
    (Lo = CJK / Hangul, Co = private use) are thinned to every 16th code point plus their first and last members."""
    global _STABLE  # noqa: PLW0603
    if _STABLE is None:
        import unicodedata as ud

        old = ud.ucd_3_2_0
        out = []
        prev_cat = None
        for c in range(MAXCP):
            ch = chr(c)
            a, b = old.category(ch), ud.category(ch)
            if (c & 0xFFFE) == 0xFFFE or 0xFDD0 <= c <= 0xFDEF:
                cat = "Cn"
            elif a == b and a != "Cn":
                cat = b
            else:
                prev_cat = None
                continue
            if c in UNICODE_VERSION_SKEW:
                continue
            if cat in ("Lo", "Co") and prev_cat == cat and c % 16 and c + 1 < MAXCP and ud.category(chr(c + 1)) == cat:
                continue
            prev_cat = cat
            out.append((c, cat))
        _STABLE = out
    return _STABLE


def unicode_abs_pred(name: str):
    """-> predicate(ch, cat) for the Unicode rules that have an oracle independent of the regex library, else None."""
    if name in GC_OF_RULE:
        spec = GC_OF_RULE[name]
        if spec.endswith("*"):
            return lambda ch, cat, p_=spec[0]: cat[0] == p_  # noqa: ARG005
        cats = frozenset(spec.split())
        return lambda ch, cat, s_=cats: cat in s_  # noqa: ARG005
    if name in STR_PROPS:
        return lambda ch, cat, f_=STR_PROPS[name]: bool(f_(ch))  # noqa: ARG005
    return None


UNICODE_CONTEXTS = {
    # id: (grammar body, how the answer follows from "NAME accepts c" (base) and the code point)
    "choice": ('"0" | {} | \'x\'..\'z\'', lambda base, c: base or c in (0x30, 0x78, 0x79, 0x7A)),
    "choice-last": ('\'0\'..\'1\' | "_" | {}', lambda base, c: base or c in (0x30, 0x31, 0x5F)),
    "not": ("!{} ~ ANY", lambda base, c: not base),
    "not-not": ("&{} ~ !\"0\" ~ ANY", lambda base, c: base and c != 0x30),
}


# ------------------------------------------------------------------------- escapes

ESCAPES: list[tuple[str, int]] = [
    ('"\\n"', 0x0A), ('"\\r"', 0x0D), ('"\\t"', 0x09), ('"\\\\"', 0x5C), ('"\\""', 0x22), ('"\\\'"', 0x27), ('"\\0"', 0x00),
    ('"\\x00"', 0x00), ('"\\x7f"', 0x7F), ('"\\x7F"', 0x7F), ('"\\xff"', 0xFF), ('"\\xFF"', 0xFF), ('"\\x41"', 0x41), ('"\\x0a"', 0x0A),
    ('"\\u{00}"', 0x00), ('"\\u{41}"', 0x41), ('"\\u{e9}"', 0xE9), ('"\\u{E9}"', 0xE9), ('"\\u{0041}"', 0x41), ('"\\u{00e9}"', 0xE9),
    ('"\\u{1F600}"', 0x1F600), ('"\\u{1f600}"', 0x1F600), ('"\\u{01F600}"', 0x1F600), ('"\\u{10FFFF}"', 0x10FFFF), ('"\\u{FFFF}"', 0xFFFF),
    ('"\\u{10000}"', 0x10000), ('"\\u{263A}"', 0x263A), ('"\\u{7ff}"', 0x7FF), ('"\\u{D7FF}"', 0xD7FF), ('"\\u{E000}"', 0xE000), ('"\\u{000041}"', 0x41),
]
CHAR_ESCAPES: list[tuple[str, int]] = [
    ("'\\n'", 0x0A), ("'\\r'", 0x0D), ("'\\t'", 0x09), ("'\\\\'", 0x5C), ("'\\''", 0x27), ("'\"'", 0x22), ("'\\\"'", 0x22), ("'\\0'", 0x00),
    ("'\\x00'", 0x00), ("'\\x7f'", 0x7F), ("'\\xFF'", 0xFF), ("'\\x41'", 0x41), ("'\\u{41}'", 0x41), ("'\\u{00e9}'", 0xE9), ("'\\u{1F600}'", 0x1F600),
    ("'\\u{10FFFF}'", 0x10FFFF), ("'\\u{7ff}'", 0x7FF), ("'\\u{10000}'", 0x10000),
]


# escape SEQUENCES: (body between the quotes, decoded text).  The decoded text of the first group contains a backslash
# followed by something that looks like an escape again: decoding twice (or not at all) denotes other code points.
ESCAPE_SEQS: list[tuple[str, str]] = [
    (r"\\n", "\\n"), (r"\\t", "\\t"), (r"\\x41", "\\x41"), (r"\\u{41}", "\\u{41}"), (r"\\\\", "\\\\"), (r"\x5cn", "\\n"), (r"\u{5c}x41", "\\x41"),
    (r"\x5c\x5c", "\\\\"), (r"\\d", "\\d"), (r"\\", "\\"), (r"\\0", "\\0"), (r"\\\"", '\\"'), (r"\\'", "\\'"),
    (r"a\nb", "a\nb"), (r"\x41\x42", "AB"), (r"\u{41}\u{1F600}z", "A\U0001f600z"), (r"\"\'", "\"'"), (r"\0\x00", "\x00\x00"), (r"\t\r\n", "\t\r\n"),
    (r"\x61\x5A", "aZ"), (r"\u{6b}\u{e9}", "ké"), (r"x\u{10FFFF}", "x\U0010ffff"), (r"\x7e\x7F", "~\x7f"),
]
ESCAPE_SEQ_CONTEXTS = {
    "string": 'SOI ~ "{}" ~ EOI',
    "ci": 'SOI ~ ^"{}" ~ EOI',
    "ci_choice": 'SOI ~ (^"{}" | "\\u{{01}}") ~ EOI',
    "push_literal": 'SOI ~ PUSH_LITERAL("{}") ~ POP ~ EOI',
    "choice": 'SOI ~ ("{}" | "\\u{{01}}" | "\\u{{02}}") ~ EOI',
}

# case-insensitive literals that mix letters with digits / punctuation, alone and inside choices the optimizer squashes.
# No alternative is a prefix of another one, so "SOI ~ (choice) ~ EOI accepts x" == "some alternative denotes x".
CI_CHOICES: list[list[tuple[str, str]]] = [
    [("ci", "0x"), ("ci", "0b"), ("ci", "0o")],
    [("ci", "utf8"), ("ci", "x-y"), ("str", "q")],
    [("ci", "e+"), ("ci", "e-"), ("str", "E0")],
    [("ci", "a1"), ("str", "b2"), ("ci", "_c")],
    [("ci", "1a"), ("ci", "2B"), ("ci", "3 c")],
    [("ci", "ab"), ("ci", "c-"), ("ci", "-d"), ("ci", "9")],
    [("ci", "a.b"), ("ci", "[c]"), ("ci", "d|e")],
    [("ci", "k9"), ("str", "K8"), ("ci", "S\u00e9")],
    [("ci", "0x")],
    [("ci", "a-z"), ("ci", "0")],
]


def _ascii_fold(x: str) -> str:
    return "".join(chr(ord(c) + 32) if "A" <= c <= "Z" else c for c in x)


def ci_choice_accepts(alts, text: str) -> bool:
    return any((_ascii_fold(v) == _ascii_fold(text)) if k == "ci" else v == text for k, v in alts)


def ci_choice_inputs(alts) -> list[str]:
    out: set[str] = {""}
    for _k, v in alts:
        letters = [i for i, c in enumerate(v) if c.isalpha()]
        for mask in range(1 << len(letters)):
            t = list(v)
            for b, i in enumerate(letters):
                if mask >> b & 1:
                    t[i] = t[i].swapcase()
            w = "".join(t)
            out.add(w)
            out.add(w[:-1])
            out.add(w + w[-1])
            for i in range(len(w)):
                for c in ("0", "a", "A", "-", "\u212a", "\u017f", chr(ord(w[i]) ^ 0x20) if ord(w[i]) < 128 else "x"):
                    out.add(w[:i] + c + w[i + 1 :])
    return sorted(out)


def pest_unescape(x: str) -> str | None:
    """pest's string escapes, decoded once (None if x is not a well-formed string body)."""
    out = []
    i = 0
    simple = {"n": "\n", "r": "\r", "t": "\t", "\\": "\\", "0": "\0", '"': '"', "'": "'"}
    while i < len(x):
        c = x[i]
        if c != "\\":
            out.append(c)
            i += 1
            continue
        e = x[i + 1 : i + 2]
        if e in simple and e:
            out.append(simple[e])
            i += 2
        elif e == "x" and len(x) >= i + 4 and all(h in "0123456789abcdefABCDEF" for h in x[i + 2 : i + 4]):
            out.append(chr(int(x[i + 2 : i + 4], 16)))
            i += 4
        elif e == "u" and x[i + 2 : i + 3] == "{" and "}" in x[i + 3 :]:
            j = x.index("}", i + 3)
            h = x[i + 3 : j]
            if not (2 <= len(h) <= 6 and all(k in "0123456789abcdefABCDEF" for k in h)) or int(h, 16) > 0x10FFFF:
                return None
            out.append(chr(int(h, 16)))
            i = j + 1
        else:
            return None
    return "".join(out)


def lit_text(k: str, v: str) -> str:
    body = "".join(c if c.isascii() and c.isprintable() and c not in '"\\' else "\\u{%x}" % ord(c) for c in v)
    return ("^" if k == "ci" else "") + '"' + body + '"'


def probe_points(cp: int) -> list[int]:
    pts = set(range(0, 0x300)) | {cp - 1, cp, cp + 1, 0xFFFF, 0x10000, 0x10FFFF, 0xD800, 0xDFFF, 0x2028, 0x1F600, 0x1F601}
    if chr(cp).isalpha():
        pts |= {ord(x) for x in chr(cp).swapcase()}
    return sorted(p for p in pts if 0 <= p < MAXCP)


# ------------------------------------------------------------------------- worker


def accepts(obj, text: str) -> bool | str:
    from pest import PestParsingError

    try:
        pairs = obj.parse("r", text)
    except PestParsingError:
        return False
    except Exception as e:  # noqa: BLE001
        return f"{type(e).__name__}: {e}"
    p = pairs[0]
    return p.end == len(text)


def matches_at_all(obj, text: str) -> bool | str:
    """False only if parse() raises PestParsingError; any returned Pairs (whatever its span) counts as a match."""
    from pest import PestParsingError

    try:
        pairs = obj.parse("r", text)
    except PestParsingError:
        return False
    except Exception as e:  # noqa: BLE001
        return f"{type(e).__name__}: {e}"
    return f"matched, span {pairs[0].start}..{pairs[0].end}" if len(pairs) else "matched"


def sweep(obj, pred, lo: int, hi: int, step: int = 1):
    """-> (tested, accepted, first mismatches)"""
    from pest import PestParsingError

    parse = obj.parse
    bad = []
    tested = accepted = 0
    for c in range(lo, hi, step):
        try:
            prs = parse("r", chr(c))
            got = prs[0].end == 1
        except PestParsingError:
            got = False
        except Exception as e:  # noqa: BLE001
            got = f"{type(e).__name__}: {e}"
        tested += 1
        if got is True:
            accepted += 1
        if got != bool(pred(c)):
            if len(bad) < 5:
                bad.append((c, got))
    return tested, accepted, bad


def worker(shard: dict) -> dict:  # noqa: PLR0912
    acc = Acc()
    table = {s[0]: s for s in specs()}
    built: dict[str, Modes] = {}

    def modes_for(key, text):
        if key not in built:
            built[key] = Modes("r = { " + text + " }")
        return built[key]

    for task in shard["tasks"]:
        kind = task["kind"]
        if kind == "sweep":
            sid, mode = task["spec"], task["mode"]
            _i, text, pred, uni = table[sid]
            md = modes_for(sid, text)
            obj = md.get(mode)
            if obj is None:
                err = md.errors[mode]
                acc.violation("c12-load", {"spec": sid, "grammar": md.text, "mode": mode, "what": "character rule does not load / generate", "observed": list(err)})
                continue
            lo, hi = task["lo"], task["hi"]
            if uni == "ascii":
                hi = min(hi, 128)
                if lo >= hi:
                    continue
            tested, accepted, bad = sweep(obj, pred, lo, hi, task.get("step", 1))
            acc.count("code_points_tested", tested)
            acc.count("code_points_accepted", accepted)
            acc.count("sweep_tasks")
            if lo == 0:
                acc.count("rule_mode_sweeps")
                # a character terminal needs a character: nothing may match on the empty input, nor at the end of input
                # after something else has matched
                got0 = matches_at_all(obj, "")
                md2 = modes_for(sid + ":after", '"\\u{01}" ~ (' + text + ")")
                obj2 = md2.get(mode)
                got1 = matches_at_all(obj2, "\x01") if obj2 is not None else "does not build"
                acc.count("end_of_input_probes", 2)
                for what, got in (("", got0), ("\x01", got1)):
                    if got is not False:
                        acc.violation("c12-end-of-input", {"spec": sid, "grammar": (md if what == "" else md2).text, "mode": mode, "input": what, "expected_member": False, "observed": got})
            for c, got in bad[:2]:
                acc.violation(
                    "c12-membership",
                    {"spec": sid, "grammar": md.text, "mode": mode, "code_point": c, "char": chr(c), "expected_member": bool(pred(c)), "observed": got, "task": task},
                )
            if len(bad) > 2:
                acc.nviol += len(bad) - 2
        elif kind == "unicode":
            name = task["rule"]
            md = modes_for("u:" + name, name)
            objs = {m: md.get(m) for m in ("I", "O", "GI", "GO")}
            if any(o is None for o in objs.values()):
                acc.violation("c12-load", {"spec": name, "grammar": md.text, "mode": "*", "what": "unicode rule does not load / generate", "observed": {m: list(e) for m, e in md.errors.items()}})
                continue
            lo, hi, step = task["lo"], task["hi"], task.get("step", 1)
            nacc = 0
            for c in range(lo, hi, step):
                s = chr(c)
                r = [accepts(o, s) for o in objs.values()]
                acc.count("code_points_tested", 4)
                if r[0] is True:
                    nacc += 1
                if any(x != r[0] for x in r[1:]):
                    acc.violation("c12-unicode-cross-mode", {"spec": name, "grammar": md.text, "code_point": c, "observed": dict(zip(objs, r)), "task": task, "mode": "*"})
                    break
            acc.count("unicode_rule_tasks")
            acc.count("unicode_code_points_accepted_by_I", nacc)
        elif kind == "uabs":
            # absolute oracle for the Unicode rules CPython can answer independently of the regex library, on version-stable code points
            name, mode = task["rule"], task["mode"]
            pred = unicode_abs_pred(name)
            md = modes_for("u:" + name, name)
            obj = md.get(mode)
            if obj is None:
                acc.violation("c12-load", {"spec": name, "grammar": md.text, "mode": mode, "what": "unicode rule does not load / generate", "observed": list(md.errors[mode])})
                continue
            pts = stable_code_points()[task["off"] :: task["stride"]]
            nbad = nacc = 0
            for c, cat in pts:
                ch_ = chr(c)
                got = accepts(obj, ch_)
                want = pred(ch_, cat)
                if got is True:
                    nacc += 1
                if got != want:
                    nbad += 1
                    if nbad <= 2:
                        acc.violation("c12-unicode-membership", {"spec": name, "grammar": md.text, "mode": mode, "code_point": c, "char": ch_, "category": cat, "expected_member": want, "observed": got})
            if nbad > 2:
                acc.nviol += nbad - 2
            acc.count("code_points_tested", len(pts))
            acc.count("unicode_abs_code_points", len(pts))
            acc.count("unicode_abs_accepted", nacc)
            acc.count("unicode_abs_tasks")
        elif kind == "ucomp":
            # a Unicode rule inside the constructs the optimizer rewrites (squashed choices) and under predicates:
            # the answer follows from what the bare rule answers in the plain interpreter
            name = task["rule"]
            base_obj = modes_for("u:" + name, name).get("I")
            if base_obj is None:
                continue  # reported by the "unicode" task
            ctxs = {}
            for cid, (body, _f) in UNICODE_CONTEXTS.items():
                mdc = modes_for(f"uc:{cid}:{name}", body.format(name))
                for mode in ("I", "O", "GI", "GO"):
                    o = mdc.get(mode)
                    if o is None:
                        acc.violation("c12-load", {"spec": f"{cid}:{name}", "grammar": mdc.text, "mode": mode, "what": "does not load / generate", "observed": list(mdc.errors[mode])})
                    else:
                        ctxs[(cid, mode)] = (o, mdc.text)
            nbad = 0
            pts = list(range(0, 0x80)) + list(range(0x80 + task["off"], MAXCP, task["step"]))
            for c in pts:
                ch_ = chr(c)
                base = accepts(base_obj, ch_)
                if base is not True and base is not False:
                    continue
                for (cid, mode), (o, gtext) in ctxs.items():
                    got = accepts(o, ch_)
                    want = bool(UNICODE_CONTEXTS[cid][1](base, c))
                    if got != want:
                        nbad += 1
                        if nbad <= 2:
                            acc.violation("c12-unicode-context", {"spec": f"{cid}:{name}", "grammar": gtext, "mode": mode, "code_point": c, "char": ch_, "bare_rule_accepts": base, "expected_member": want, "observed": got})
                acc.count("code_points_tested", len(ctxs) + 1)
                acc.count("unicode_context_probes", len(ctxs))
            if nbad > 2:
                acc.nviol += nbad - 2
            acc.count("unicode_context_tasks")
        elif kind == "escape":
            text, cp, ctx = task["text"], task["cp"], task["ctx"]
            gtext = text if ctx == "string" else f"{text}..{text}"
            md = modes_for(f"e:{ctx}:{text}", gtext)
            for mode in ("I", "O", "GI", "GO"):
                obj = md.get(mode)
                if obj is None:
                    acc.violation("c12-escape-load", {"spec": text, "grammar": md.text, "mode": mode, "what": "a pest-defined escape is rejected", "expected_code_point": cp, "observed": list(md.errors[mode])})
                    break
                for p in probe_points(cp):
                    got = accepts(obj, chr(p))
                    acc.count("code_points_tested")
                    acc.count("escape_probes")
                    if got != (p == cp):
                        acc.violation("c12-escape", {"spec": text, "grammar": md.text, "mode": mode, "code_point": p, "expected_code_point": cp, "observed": got})
                        break
            acc.count("escape_forms")
        elif kind == "escape_seq":
            body, want_text, ctx = task["body"], task["decoded"], task["ctx"]
            md = modes_for(f"es:{ctx}:{body}", ESCAPE_SEQ_CONTEXTS[ctx].format(body))
            fold = ctx in ("ci", "ci_choice")
            # the decoded text must be accepted; every other reading of the body must not be
            others = {body, want_text[:-1], want_text + want_text[-1:], want_text.replace("\\", "", 1), want_text.replace("\\", "\\\\", 1)}
            twice = pest_unescape(want_text)
            if twice is not None:
                others.add(twice)
            for x in list(others):
                others.add(x.swapcase())
            probes = {want_text: True}
            if fold:
                probes[want_text.swapcase()] = _ascii_fold(want_text.swapcase()) == _ascii_fold(want_text)
                probes[want_text.upper()] = _ascii_fold(want_text.upper()) == _ascii_fold(want_text)
            for x in others:
                if x not in probes:
                    probes[x] = (_ascii_fold(x) == _ascii_fold(want_text)) if fold else x == want_text
            for mode in ("I", "O", "GI", "GO"):
                obj = md.get(mode)
                if obj is None:
                    acc.violation("c12-escape-load", {"spec": body, "grammar": md.text, "mode": mode, "what": "a literal made of pest-defined escapes is rejected", "observed": list(md.errors[mode])})
                    break
                for x, want in probes.items():
                    got = accepts(obj, x)
                    acc.count("code_points_tested")
                    acc.count("escape_sequence_probes")
                    if got != want:
                        acc.violation("c12-escape-seq", {"spec": body, "context": ctx, "grammar": md.text, "mode": mode, "input": x, "expected_member": want, "observed": got, "decoded": want_text})
                        break
            acc.count("escape_sequence_forms")
        elif kind == "cichoice":
            alts = [tuple(a) for a in task["alts"]]
            md = modes_for("cc:" + repr(alts), "SOI ~ (" + " | ".join(lit_text(k, v) for k, v in alts) + ") ~ EOI")
            inputs = ci_choice_inputs(alts)
            for mode in ("I", "O", "GI", "GO"):
                obj = md.get(mode)
                if obj is None:
                    acc.violation("c12-load", {"spec": repr(alts), "grammar": md.text, "mode": mode, "what": "does not load", "observed": list(md.errors[mode])})
                    continue
                nbad = 0
                for x in inputs:
                    got = accepts(obj, x)
                    acc.count("code_points_tested")
                    acc.count("ci_choice_probes")
                    want = ci_choice_accepts(alts, x)
                    if want:
                        acc.count("ci_choice_probes_accepted")
                    if got != want:
                        nbad += 1
                        if nbad <= 2:
                            acc.violation("c12-ci-choice", {"spec": repr(alts), "grammar": md.text, "mode": mode, "input": x, "expected_member": want, "observed": got})
            acc.count("ci_choice_families")
        elif kind == "ci2":
            # two-letter case-insensitive literal on all ASCII pairs
            md = modes_for("ci2", '^"aZ"')
            for mode in ("I", "O", "GI", "GO"):
                obj = md.get(mode)
                if obj is None:
                    acc.violation("c12-load", {"spec": '^"aZ"', "grammar": md.text, "mode": mode, "what": "does not load", "observed": list(md.errors[mode])})
                    continue
                for a in range(128):
                    for b in range(128):
                        got = accepts(obj, chr(a) + chr(b))
                        acc.count("code_points_tested")
                        want = chr(a) in "aA" and chr(b) in "zZ"
                        if got != want:
                            acc.violation("c12-ci", {"spec": '^"aZ"', "grammar": md.text, "mode": mode, "input": chr(a) + chr(b), "expected_member": want, "observed": got})
            acc.count("ci_pair_sweeps")
        elif kind == "newline2":
            md = modes_for("NEWLINE2", "NEWLINE ~ EOI")
            for mode in ("I", "O", "GI", "GO"):
                obj = md.get(mode)
                for s, want in [("\r\n", True), ("\n", True), ("\r", True), ("\n\r", False), ("\r\r", False), ("\n\n", False), ("\u2028", False), ("\x0b", False), ("\x85", False)]:
                    got = accepts(obj, s) if obj is not None else "no-object"
                    acc.count("code_points_tested")
                    if got != want:
                        acc.violation("c12-newline", {"spec": "NEWLINE ~ EOI", "grammar": md.text, "mode": mode, "input": s, "expected_member": want, "observed": got})
    if not acc.samples and shard["tasks"]:
        acc.sample(shard["tasks"][0])
    return acc.dump()


def main(tier: str, seed: int) -> int:
    run = Run("C12", tier, seed)
    rnd = random.Random(seed_int("C12", seed))
    all_specs = specs()
    builtin_ids = [s[0] for s in all_specs[:12]]
    others = [s[0] for s in all_specs[12:]]
    if run.quick:
        chosen_full = builtin_ids[:]  # every built-in, all code points
        extra_full = rnd.sample(others, 6)
        extra_bmp = [x for x in others if x not in extra_full]
    else:
        chosen_full = builtin_ids + others
        extra_full, extra_bmp = [], []
    tasks: list[dict] = []
    chunk = 0x110000 // 4
    for sid in chosen_full + extra_full:
        for mode in ("I", "O", "GI", "GO"):
            for k in range(4):
                tasks.append({"kind": "sweep", "spec": sid, "mode": mode, "lo": k * chunk, "hi": (k + 1) * chunk})
    for sid in extra_bmp:
        # quick tier: the remaining rules on the BMP + every 17th astral code point (full sweep in the thorough tier)
        for mode in ("I", "O", "GI", "GO"):
            tasks.append({"kind": "sweep", "spec": sid, "mode": mode, "lo": 0, "hi": 0x3000})
            tasks.append({"kind": "sweep", "spec": sid, "mode": mode, "lo": 0x3000, "hi": MAXCP, "step": 17 if mode in ("I", "GO") else 19})
    names = unicode_rule_names()
    chosen_u = names if not run.quick else rnd.sample(names, 24)
    for n in chosen_u:
        if run.quick:
            tasks.append({"kind": "unicode", "rule": n, "lo": 0, "hi": MAXCP, "step": 7})
        else:
            for k in range(2):
                tasks.append({"kind": "unicode", "rule": n, "lo": k * (MAXCP // 2), "hi": (k + 1) * (MAXCP // 2)})
    abs_names = [n for n in names if unicode_abs_pred(n) is not None]
    for n in abs_names:
        for mode in ("I", "O", "GI", "GO"):
            if run.quick:
                # every rule with an absolute oracle in every mode; modes take different halves of the stable code points
                tasks.append({"kind": "uabs", "rule": n, "mode": mode, "off": 0 if mode in ("I", "GO") else 1, "stride": 2})
            else:
                for off in range(2):
                    tasks.append({"kind": "uabs", "rule": n, "mode": mode, "off": off, "stride": 2})
    for n in names if not run.quick else sorted(set(rnd.sample(names, 16)) | {"LETTER", "UPPERCASE_LETTER", "NUMBER", "XID_CONTINUE", "WHITE_SPACE", "LATIN", "HAN", "EMOJI"}):
        if run.quick:
            tasks.append({"kind": "ucomp", "rule": n, "off": rnd.randrange(23), "step": 23})
        else:
            tasks.append({"kind": "ucomp", "rule": n, "off": rnd.randrange(11), "step": 11})
    for text, cp in ESCAPES:
        tasks.append({"kind": "escape", "text": text, "cp": cp, "ctx": "string"})
    for text, cp in CHAR_ESCAPES:
        tasks.append({"kind": "escape", "text": text, "cp": cp, "ctx": "char"})
    for body, decoded in ESCAPE_SEQS:
        for ctx in ESCAPE_SEQ_CONTEXTS:
            tasks.append({"kind": "escape_seq", "body": body, "decoded": decoded, "ctx": ctx})
    for alts in CI_CHOICES:
        tasks.append({"kind": "cichoice", "alts": alts})
    tasks.append({"kind": "ci2"})
    tasks.append({"kind": "newline2"})
    rnd.shuffle(tasks)
    nsh = 64 if run.quick else 256
    shards = [{"tasks": tasks[j::nsh]} for j in range(nsh)]
    run_workers("pv.checks.c12", "worker", shards, timeout_s=run.pick(900, 7200), acc=run.acc)
    run.acc.distinct = set()
    run.acc.groups = {"rule_mode_sweeps+unicode+escapes": run.acc.c["rule_mode_sweeps"] + run.acc.c["unicode_rule_tasks"] + run.acc.c["escape_forms"]}
    return run.finish(
        rule=(
            "one parse('r', chr(c)) per code point on r = { X }: every ASCII built-in, NEWLINE and ANY over ALL 1,114,112 code points x 4 modes; "
            f"a family of {len(others)} ranges / literals / optimizer-merged choices (case boundaries, regex metacharacters, plane boundaries, "
            "case-fold traps) - all of them fully swept in the thorough tier, a seeded 6 fully + the rest on U+0000-2FFF and a 1/17 stride in quick; "
            "Unicode property rules by cross-mode agreement (all in thorough, seeded 24 with stride 7 in quick), the 42 rules CPython can answer also absolutely on "
            "version-stable code points in every mode, and Unicode rules inside squashable choices / under predicates relative to the bare rule; every escape form by probing "
            "768 + boundary code points around the decoded value, in strings and in range bounds; escape SEQUENCES (incl. bodies whose decoded text "
            "contains a backslash followed by escape-looking text) in plain, CI, CI-in-choice, PUSH_LITERAL and squashed-choice contexts, judged on the "
            "decoded text and on every other reading of the body; CI literals mixing letters with digits / punctuation inside squashable choices on "
            "all case variants and single-character mutants. distinct_nontrivial = number of distinct "
            "(rule, mode) sweeps + unicode rules + escape forms completed (measured)."
        ),
        assumptions=[
            "set predicates in pv/checks/c12.py are the specification (pest book tables); CI literals judged on ASCII input only",
            "Unicode property rules: cross-mode agreement; absolute for the general-category rules, XID_START, XID_CONTINUE, UPPERCASE, LOWERCASE on code points whose "
            "category is the same in Unicode 3.2 and in CPython's unicodedata (plus noncharacters), without U+0295, U+200C, U+200D (changed by the standard after 15.0)",
        ],
        evaluations_key="code_points_tested",
        floors={"code_points_tested": 1_000_000, "rule_mode_sweeps": 40, "unicode_rule_tasks": 20, "unicode_abs_tasks": 160, "unicode_abs_accepted": 50_000, "unicode_context_tasks": 16, "escape_forms": 40, "escape_sequence_forms": 100, "ci_choice_families": 10, "end_of_input_probes": 80, "ci_choice_probes_accepted": 200},
        exhaustive=not run.quick,
    )


def replay(path: str) -> int:
    v = load_replay(path)["violation"]
    md = Modes(v["grammar"])
    modes = ["I", "O", "GI", "GO"] if v.get("mode") in (None, "*") else [v["mode"]]
    table = {s[0]: s for s in specs()}
    bad = 0
    for m in modes:
        obj = md.get(m)
        if obj is None:
            print(m, "does not build:", md.errors[m])
            bad += 1
            continue
        if "code_point" in v:
            got = accepts(obj, chr(v["code_point"]))
            if v["spec"] in table:
                want = bool(table[v["spec"]][2](v["code_point"]))
            elif "expected_code_point" in v:
                want = v["code_point"] == v["expected_code_point"]
            elif "expected_member" in v:
                want = v["expected_member"]  # Unicode rules: the recorded answer of CPython's tables / of the bare rule
            else:
                want = None
            print(m, "U+%04X" % v["code_point"], "accepted" if got is True else got, "expected member:", want)
            if want is not None and got != want:
                bad += 1
    if bad or v["kind"] == "c12-unicode-cross-mode":
        print(f"VIOLATION property=C12 replay={path}")
        return 1
    print("not reproduced")
    return 0


def selftest() -> None:
    t = {s[0]: s for s in specs()}
    assert t["ASCII_HEX_DIGIT"][2](ord("F")) and not t["ASCII_HEX_DIGIT"][2](ord("g"))
    assert t["choice:overlap"][2](ord("k")) and not t["choice:overlap"][2](ord("l"))
    assert len({s[0] for s in specs()}) == len(specs())
    for body, decoded in ESCAPE_SEQS:
        assert pest_unescape(body) == decoded, (body, decoded, pest_unescape(body))
    assert pest_unescape("\\") is None and pest_unescape("\\q") is None and pest_unescape("\\u{110000}") is None
    assert ci_choice_accepts([("ci", "0x")], "0X") and not ci_choice_accepts([("str", "K8")], "k8") and not ci_choice_accepts([("ci", "k9")], "\u212a9")
