"""C09 - snapshotting stack / counter / parser state behave like full-copy snapshots.

History + executable model (DESIGN.md 4/C09).  Every history is executed step by step on
the real object and on a reference that stores full copies; after *every* step the whole
visible state is compared.  Items are unique (the step number), so a read identifies the
write it observed.

  stratum A  exhaustive: all histories of length L over the 6 stack operations
  stratum B  exhaustive: all histories of length L over the 6 counter operations
  stratum C  exhaustive: all *well-nested* histories of length L over 12 ParserState operations
  stratum D  seeded random histories of length 200 over all three
  stratum E  parse-driven histories: real parses of stack-heavy grammars under a state monitor
             (added by pv.engine when available)
"""

from __future__ import annotations

import itertools
import random

from pv.common import Acc, Run, load_replay, run_workers, seed_int

STACK_OPS = ("push", "pop", "clear", "snapshot", "restore", "drop")
INT_OPS = ("inc", "dec", "zero", "snapshot", "restore", "drop")
STATE_OPS = (
    "adv",
    "push",
    "drop",
    "rpush",
    "rpop",
    "ainc",
    "azero",
    "checkpoint",
    "ok",
    "restore",
    "aenter",
    "aexit",
)


class Mismatch(Exception):
    def __init__(self, step: int, what: str, expected, observed):
        super().__init__(what)
        self.step = step
        self.what = what
        self.expected = expected
        self.observed = observed


# ---------------------------------------------------------------------------- stack


def _stack_visible(s):
    items = list(s)
    n = len(s)
    try:
        top = ("top", s.peek())
    except IndexError:
        top = ("empty",)
    return items, n, top, bool(s.empty())


def run_stack_history(hist, acc: Acc | None = None, states: set | None = None):
    """Execute one history on pest.stack.Stack and on the full-copy model."""
    from pest.stack import Stack

    s = Stack()
    items: list[int] = []
    snaps: list[list[int]] = []
    for i, op in enumerate(hist):
        expect_exc = None
        if op == "push":
            items.append(i)
        elif op == "pop":
            if items:
                exp_ret = items.pop()
            else:
                expect_exc = IndexError
        elif op == "clear":
            items = []
        elif op == "snapshot":
            snaps.append(list(items))
            if acc is not None:
                acc.maxi("stack.max_open_snapshots", len(snaps))
                acc.maxi("stack.max_items_at_snapshot", len(items))
        elif op == "restore":
            before = items
            items = snaps.pop() if snaps else []
            if acc is not None and before != items:
                acc.count("stack.restores_that_changed_contents")
                if len(items) > 0 and (len(before) < len(items) or before[: len(items)] != items):
                    acc.count("stack.restores_that_recovered_popped_items")
        elif op == "drop":
            if snaps:
                inner = snaps.pop()
                if acc is not None and snaps and inner != items:
                    # an outer snapshot still has to be restorable after this drop
                    acc.count("stack.drops_with_pending_changes_under_outer_snapshot")
        try:
            if op == "push":
                s.push(i)
            elif op == "pop":
                ret = s.pop()
                if expect_exc is None and ret != exp_ret:
                    raise Mismatch(i, "pop return value", exp_ret, ret)
            elif op == "clear":
                s.clear()
            elif op == "snapshot":
                s.snapshot()
            elif op == "restore":
                s.restore()
            elif op == "drop":
                s.drop_snapshot()
            if expect_exc is not None:
                raise Mismatch(i, "pop on empty stack did not raise IndexError", "IndexError", "no exception")
        except Mismatch:
            raise
        except Exception as e:  # noqa: BLE001
            if expect_exc is None or not isinstance(e, expect_exc):
                raise Mismatch(i, f"unexpected {type(e).__name__}: {e}", "no exception", type(e).__name__) from None
        got = _stack_visible(s)
        exp = (items, len(items), ("top", items[-1]) if items else ("empty",), not items)
        if got != exp:
            raise Mismatch(i, "visible contents", exp, got)
        if states is not None:
            states.add(hash((tuple(items), tuple(tuple(x) for x in snaps))))
        if acc is not None and len(snaps) > acc.mx.get("stack.max_snapshot_nesting", 0):
            acc.mx["stack.max_snapshot_nesting"] = len(snaps)


# ---------------------------------------------------------------------------- counter


def run_int_history(hist, acc: Acc | None = None, states: set | None = None):
    from pest.checkpoint_int import SnapshottingInt

    c = SnapshottingInt()
    v = 0
    snaps: list[int] = []
    for i, op in enumerate(hist):
        try:
            if op == "inc":
                c += 1
                v += 1
            elif op == "dec":
                c -= 1
                v -= 1
            elif op == "zero":
                c.zero()
                v = 0
            elif op == "snapshot":
                c.snapshot()
                snaps.append(v)
            elif op == "restore":
                c.restore()
                old = v
                v = snaps.pop() if snaps else 0
                if acc is not None and old != v:
                    acc.count("int.restores_that_changed_value")
            elif op == "drop":
                c.drop()
                if snaps:
                    snaps.pop()
        except Exception as e:  # noqa: BLE001
            raise Mismatch(i, f"unexpected {type(e).__name__}: {e}", "no exception", type(e).__name__) from None
        got = (int(c), c == v, c > 0, c != v)
        exp = (v, True, v > 0, False)
        if got != exp:
            raise Mismatch(i, "counter value", exp, got)
        if states is not None:
            states.add(hash(("i", v, tuple(snaps))))


# ---------------------------------------------------------------------------- parser state


def state_op_valid(op: str, frames: list) -> bool:
    """Well-nestedness: ok/restore need a full checkpoint on top, aexit an atomic one."""
    if op in ("ok", "restore"):
        return bool(frames) and frames[-1][0] == "full"
    if op == "aexit":
        return bool(frames) and frames[-1][0] == "atomic"
    return True


def run_state_history(hist, acc: Acc | None = None, states: set | None = None):
    """ParserState.checkpoint/ok/restore (+ atomic_checkpoint) against full copies."""
    from pest.state import ParserState, RuleFrame

    st = ParserState("x" * 64, 0)
    pos = 0
    user: list[str] = []
    rules: list[str] = []
    atom = 0
    frames: list[tuple] = []
    ctxs: list = []
    for i, op in enumerate(hist):
        if not state_op_valid(op, frames):
            raise ValueError(f"ill-nested history at {i}: {op}")
        expect_exc = None
        try:
            if op == "adv":
                st.pos += 1
                pos += 1
            elif op == "push":
                st.push(f"u{i}")
                user.append(f"u{i}")
            elif op == "drop":
                if user:
                    user.pop()
                else:
                    expect_exc = IndexError
                st.drop()
            elif op == "rpush":
                st.rule_stack.push(RuleFrame(f"r{i}", 0))
                rules.append(f"r{i}")
            elif op == "rpop":
                if rules:
                    rules.pop()
                else:
                    expect_exc = IndexError
                st.rule_stack.pop()
            elif op == "ainc":
                st.atomic_depth += 1
                atom += 1
            elif op == "azero":
                st.atomic_depth.zero()
                atom = 0
            elif op == "checkpoint":
                st.checkpoint()
                frames.append(("full", (pos, list(user), list(rules), atom)))
            elif op == "ok":
                st.ok()
                frames.pop()
            elif op == "restore":
                st.restore()
                before = (pos, user, rules, atom)
                pos, user, rules, atom = frames.pop()[1]
                if acc is not None and before != (pos, user, rules, atom):
                    acc.count("state.restores_that_changed_state")
            elif op == "aenter":
                cm = st.atomic_checkpoint()
                cm.__enter__()
                ctxs.append(cm)
                frames.append(("atomic", atom))
            elif op == "aexit":
                ctxs.pop().__exit__(None, None, None)
                atom = frames.pop()[1]
            if expect_exc is not None:
                raise Mismatch(i, f"{op} on empty stack did not raise IndexError", "IndexError", "no exception")
        except Mismatch:
            raise
        except Exception as e:  # noqa: BLE001
            if expect_exc is None or not isinstance(e, expect_exc):
                raise Mismatch(i, f"unexpected {type(e).__name__}: {e}", "no exception", type(e).__name__) from None
        got = (
            st.pos,
            list(st.user_stack),
            [f.name for f in st.rule_stack],
            int(st.atomic_depth),
            st.peek() if user else None,
            list(st.peek_slice()),
        )
        exp = (pos, user, rules, atom, user[-1] if user else None, user)
        if got != exp:
            raise Mismatch(i, "parser state (pos, user stack, rule stack, atomic depth, peek, peek_slice)", exp, got)
        if states is not None:
            states.add(hash(("s", pos, tuple(user), tuple(rules), atom, len(frames))))
        if acc is not None and len(frames) > acc.mx.get("state.max_checkpoint_nesting", 0):
            acc.mx["state.max_checkpoint_nesting"] = len(frames)


RUNNERS = {"stack": run_stack_history, "int": run_int_history, "state": run_state_history}


def _judge(kind: str, hist, acc: Acc, states: set) -> None:
    acc.count(f"{kind}.histories")
    acc.count(f"{kind}.steps", len(hist))
    try:
        RUNNERS[kind](hist, acc, states)
    except Mismatch as m:
        # one witness per failing operation shape: (last op, what), shortest history first
        key = (kind, hist[m.step], m.what.split(":")[0])
        seen = acc.sets.setdefault("_viol_keys", set())
        acc.nviol += 1 if key in seen else 0
        if key in seen:
            return
        seen.add(key)
        acc.violation(
            f"{kind}-model-mismatch",
            {
                "object": kind,
                "history": list(hist),
                "failing_step": m.step,
                "failing_prefix": list(hist[: m.step + 1]),
                "what": m.what,
                "expected": m.expected,
                "observed": m.observed,
            },
        )


def _state_histories(prefix, length):
    """DFS over well-nested ParserState histories extending `prefix` to `length`."""
    frames: list[str] = []
    for op in prefix:
        if op in ("ok", "restore"):
            if not frames or frames[-1] != "full":
                return
            frames.pop()
        elif op == "aexit":
            if not frames or frames[-1] != "atomic":
                return
            frames.pop()
        elif op == "checkpoint":
            frames.append("full")
        elif op == "aenter":
            frames.append("atomic")
    hist = list(prefix)

    def rec():
        if len(hist) == length:
            yield tuple(hist)
            return
        for op in STATE_OPS:
            if op in ("ok", "restore"):
                if not frames or frames[-1] != "full":
                    continue
                frames.pop()
                hist.append(op)
                yield from rec()
                hist.pop()
                frames.append("full")
            elif op == "aexit":
                if not frames or frames[-1] != "atomic":
                    continue
                frames.pop()
                hist.append(op)
                yield from rec()
                hist.pop()
                frames.append("atomic")
            elif op in ("checkpoint", "aenter"):
                frames.append("full" if op == "checkpoint" else "atomic")
                hist.append(op)
                yield from rec()
                hist.pop()
                frames.pop()
            else:
                hist.append(op)
                yield from rec()
                hist.pop()

    yield from rec()


def worker(shard: dict) -> dict:
    acc = Acc()
    states: set[int] = set()
    kind = shard["kind"]
    if shard["mode"] == "exhaustive":
        prefix = tuple(shard["prefix"])
        length = shard["length"]
        if kind == "state":
            gen = _state_histories(prefix, length)
        else:
            ops = STACK_OPS if kind == "stack" else INT_OPS
            gen = (prefix + rest for rest in itertools.product(ops, repeat=length - len(prefix)))
        n = 0
        for h in gen:
            _judge(kind, h, acc, states)
            n += 1
            if n == 1 + shard.get("sample_at", 0):
                acc.sample({"object": kind, "history": list(h)})
    else:
        rnd = random.Random(shard["seed"])
        for k in range(shard["count"]):
            if kind == "state":
                frames: list[str] = []
                h = []
                for _ in range(shard["length"]):
                    cand = [op for op in STATE_OPS if state_op_valid(op, [(f,) for f in frames])]
                    weights = [3 if op in ("checkpoint", "restore", "ok", "push", "drop") else 1 for op in cand]
                    op = rnd.choices(cand, weights)[0]
                    if op in ("ok", "restore", "aexit"):
                        frames.pop()
                    elif op == "checkpoint":
                        frames.append("full")
                    elif op == "aenter":
                        frames.append("atomic")
                    h.append(op)
            else:
                ops = STACK_OPS if kind == "stack" else INT_OPS
                w = rnd.choice([(4, 4, 1, 3, 2, 2), (3, 3, 0.3, 4, 3, 3), (5, 2, 0.2, 3, 1, 1), (1, 1, 1, 1, 1, 1)])
                if shard["length"] > 500:
                    # growth profiles: hundreds of items and dozens to hundreds of open snapshots (size thresholds, if any, live there)
                    w = rnd.choice([(10, 2, 0.02, 3, 1, 1), (6, 1, 0.01, 6, 0.5, 0.5), (8, 6, 0.01, 2, 0.6, 0.3), (3, 1, 0.0, 8, 1, 2)])
                h = rnd.choices(ops, w, k=shard["length"])
            _judge(kind, tuple(h), acc, states)
            if k == 0:
                acc.sample({"object": kind, "history(first 30 ops)": list(h[:30]), "length": len(h)})
    d = acc.dump()
    d["distinct"] = sorted(states)
    return d


def main(tier: str, seed: int) -> int:
    run = Run("C09", tier, seed)
    L_stack = run.pick(8, 10)
    L_int = run.pick(8, 10)
    L_state = run.pick(6, 7)
    shards: list[dict] = []
    for kind, ops, length in (("stack", STACK_OPS, L_stack), ("int", INT_OPS, L_int)):
        plen = 2 if length <= 8 else 3
        for j, prefix in enumerate(itertools.product(ops, repeat=plen)):
            shards.append({"mode": "exhaustive", "kind": kind, "prefix": list(prefix), "length": length, "sample_at": (seed + j) % 97})
    for j, prefix in enumerate(itertools.product(STATE_OPS, repeat=2)):
        shards.append({"mode": "exhaustive", "kind": "state", "prefix": list(prefix), "length": L_state, "sample_at": (seed + j) % 53})
    nrand = run.pick(1500, 40000)
    per = max(1, nrand // 16)
    for kind in ("stack", "int", "state"):
        for j in range(16):
            shards.append({"mode": "random", "kind": kind, "seed": seed_int("C09", seed, kind, j), "count": per, "length": 200})
            shards.append({"mode": "random", "kind": kind, "seed": seed_int("C09", seed, kind, "long", j), "count": max(2, per // 20), "length": 3000})
    # largest first
    shards.sort(key=lambda s: (s["mode"] != "exhaustive", s["kind"] != "state"))
    run_workers("pv.checks.c09", "worker", shards, timeout_s=run.pick(600, 3600), acc=run.acc)
    run.acc.samples = run.acc.samples[:3] + [s for s in run.acc.samples[3:] if s.get("object") != run.acc.samples[0].get("object")][:6]
    run.acc.count("histories_total", run.acc.c["stack.histories"] + run.acc.c["int.histories"] + run.acc.c["state.histories"])
    return run.finish(
        rule=(
            f"exhaustive: every history of length {L_stack} over {list(STACK_OPS)} on Stack, of length {L_int} over "
            f"{list(INT_OPS)} on SnapshottingInt, every well-nested history of length {L_state} over {list(STATE_OPS)} on "
            "ParserState (all shorter histories are prefixes; state compared after every step), plus seeded random histories of "
            "length 200 and, under growth profiles (hundreds of items, up to hundreds of open snapshots; maxima in the evidence), of length 3000. distinct_nontrivial = number of distinct reference states (contents + whole snapshot stack) reached, "
            "counted by the harness; a history is non-trivial when it reaches a state no shorter prefix class reached."
        ),
        assumptions=[
            "the full-copy model in pv/checks/c09.py is the specification (snapshot = copy, restore = pop copy or empty, drop = discard copy)",
            "ParserState histories are well-nested (ok/restore only with an open checkpoint), as in every real parse",
        ],
        evaluations_key="histories_total",
        floors={"stack.histories": 1000, "int.histories": 1000, "state.histories": 1000, "stack.restores_that_recovered_popped_items": 100, "stack.drops_with_pending_changes_under_outer_snapshot": 100},
        exhaustive=True,
        extra={"bounds": {"stack_len": L_stack, "int_len": L_int, "state_len": L_state, "random_len": 200}},
    )


def replay(path: str) -> int:
    body = load_replay(path)
    v = body["violation"]
    kind = v["object"]
    try:
        RUNNERS[kind](tuple(v["history"]))
    except Mismatch as m:
        print(f"reproduced: step {m.step} {m.what}: expected {m.expected!r} observed {m.observed!r}")
        print(f"VIOLATION property=C09 replay={path}")
        return 1
    print("not reproduced (history now agrees with the full-copy model)")
    return 0


def selftest() -> None:
    """The model must reject a deliberately wrong stack (oracle sensitivity), accept a trivial one."""
    run_stack_history(("push", "snapshot", "push", "restore", "pop", "pop"))
    run_int_history(("inc", "snapshot", "zero", "restore", "drop", "restore"))
    run_state_history(("push", "checkpoint", "drop", "adv", "restore", "aenter", "ainc", "aexit"))
    import pest.stack as st

    orig = st.Stack.restore
    try:
        st.Stack.restore = lambda self: self.lengths and self.lengths.pop() and None  # forgets to rewind
        try:
            run_stack_history(("push", "snapshot", "push", "restore"))
        except Mismatch:
            return
        raise AssertionError("full-copy model did not notice a restore() that does not rewind")
    finally:
        st.Stack.restore = orig
