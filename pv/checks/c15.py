"""C15 - parsers are isolated, reusable and re-entrant (histories + schedules).

History part.  A worker process performs a long seeded history of operations (create parsers
for the same or other grammars with optimizer None / default / custom pipelines / debug=True,
generate(), exec generated modules, succeeding and failing parses on any object) and, every
few operations, an OBSERVED call whose result is compared with the result of the same call
in a FRESH interpreter process that did nothing else (one process per observed call).

Schedule part.  Shared parser objects and generated modules are hammered by 8-16 threads with
a 1 microsecond switch interval and sys.monitoring LINE-event yield injection inside pest's
and the generated modules' frames, while other threads create and optimise new parsers.
Every result must equal the single-threaded baseline of the same call.
"""

from __future__ import annotations

import json
import os
import random
import subprocess
import sys
import threading
import time
from concurrent.futures import ThreadPoolExecutor

from pv.common import NCPU, PYTHON, REPO, VERIF, Acc, Run, load_replay, run_workers, seed_int, sha

# ----------------------------------------------------------------------------- grammar pool

INLINE_GRAMMARS = {
    "builtins": 'w = { (ASCII_ALPHA | ASCII_DIGIT | "_")+ ~ EOI }\nh = { ASCII_HEX_DIGIT{2,4} ~ ASCII_ALPHANUMERIC* }\nn = { NEWLINE | ASCII_ALPHA_UPPER ~ ASCII_ALPHA_LOWER* }',
    "choice": 'k = { ("select" | "set" | ^"from" | \'a\'..\'f\' | "x" | LETTER)+ }\nm = _{ "a" | "b" | k }\nt = { #tg = m ~ (m | "!")* }',
    "stack": 'q = { PUSH("a"+ | "b") ~ ("-" ~ PEEK)* ~ (POP | DROP ~ "z") ~ PEEK_ALL ~ EOI }\nr = ${ PUSH_LITERAL("x") ~ (!POP ~ ANY)* ~ POP }',
    "trivia": 'WHITESPACE = _{ " " | "\\t" }\nCOMMENT = _{ "#" ~ (!NEWLINE ~ ANY)* }\ns = { "a"{2,3} ~ b* ~ c? ~ EOI }\nb = @{ "b" ~ ("c" | "d")+ }\nc = ${ "e" ~ b }\nu = @{ (!("x" | "yz") ~ ANY)* ~ "x" }\nv = { (!";" ~ ANY)* ~ ";" }',
    "wsonly": 'WHITESPACE = _{ " " | "\\t" }\np = { "x" ~ "y" }\nt = @{ "x" ~ (" " | "\\t") ~ "y" }\nw = { (!";" ~ ANY)* ~ ";" }',
    "plain": 'p = { (!";" ~ ANY)* ~ ";" ~ q? }\nq = { (" " | "\\t")+ }',
    "ci": 'c = { ^"ss" ~ "!" | ^"fi" ~ ANY? | ^"k" }\nd = @{ ^"Stra" ~ (^"sse" | "\\u{DF}e") }',
    "rec": 'e = { "(" ~ e ~ ")" | t+ }\nt = _{ \'0\'..\'9\' | "+" | e2 }\ne2 = !{ "[" ~ e? ~ "]" }\nWHITESPACE = _{ " " }',
}
BUNDLED = {"json": ("tests/grammars/json.pest", "json"), "calc": ("examples/calculator/calculator.pest", "program"), "lists": ("tests/grammars/lists.pest", "lists"), "csv": ("examples/csv/csv.pest", "file")}

CALLS: dict[str, list[tuple[str, str]]] = {
    "builtins": [("w", "ab_9"), ("w", "ab-9"), ("h", "fF09zz"), ("h", "g"), ("n", "\r\n"), ("n", "Abc"), ("n", "abc"), ("w", "")],
    "choice": [("k", "selectsetFROMaxé"), ("k", "sel"), ("t", "ab!a"), ("t", "!"), ("k", "Q"), ("t", "selectb")],
    "stack": [("q", "aa-aa-aaaa"), ("q", "b-bzb"), ("q", "aa-a"), ("r", "abcx"), ("r", "x"), ("q", "")],
    "trivia": [("s", "a a  a b c # x"), ("s", "aabcd bdd ebc"), ("s", "a"), ("u", "abyx"), ("u", "yz"), ("s", "aaa  ebd\t#"), ("b", "bcdx"), ("v", "ab # ; x\n cd;"), ("v", "ab cd ;"), ("v", "# ;")],
    "ci": [("c", "SS!"), ("c", "\u00df!"), ("c", "\ufb01x"), ("c", "Fi"), ("c", "\u212a"), ("c", "K"), ("d", "STRASSE"), ("d", "stra\u00dfe"), ("d", "stra\u1e9ee")],
    "wsonly": [("p", "x  y"), ("p", "xy"), ("t", "x y"), ("t", "x  y"), ("w", "ab cd ;"), ("w", " ; ")],
    "plain": [("p", "ab;  "), ("p", "a b"), ("p", ";\t")],
    "rec": [("e", "((1+2))"), ("e", "(1"), ("e", "[ ( 1 ) ]+"), ("e", "[[]]"), ("e", ")")],
    "json": [("json", '{"a": [1, 2.5e3, true, null, "x\\n"], "b": {}}'), ("json", "[1, 2"), ("json", '{"a": tru}'), ("json", "[[[[1.5e3]]]]"), ("json", ""), ("json", ' [ "\\u00e9" ] ')],
    "calc": [("program", "1 + 2 * 3"), ("program", "-x! ^ 2 - (3 / y)"), ("program", "1 +"), ("program", "(1"), ("program", " 5! ")],
    "lists": [("lists", "- a\n- b\n  - c\n  - d\n- e"), ("lists", "- a\n    - b"), ("lists", "x")],
    "csv": [("file", "1,2,3\n4,5,6\n"), ("file", "1,,2\n"), ("file", "-1.5,2\n")],
}
SETTINGS = ["none", "default", "pipe:0", "pipe:3,0", "pipe:4,3,2,1,0", "pipe:2,2,4", "debug"]
KINDS = ["interp", "generated"]


def grammar_text(gid: str) -> str:
    if gid in INLINE_GRAMMARS:
        return INLINE_GRAMMARS[gid]
    with open(os.path.join(REPO, BUNDLED[gid][0]), encoding="utf-8") as fd:
        return fd.read()


STEP_BUDGET = 20_000  # logical steps (checkpoints + rule entries) per parse; the pool's calls need < 400


def build(gid: str, setting: str, kind: str):
    return build_text(grammar_text(gid), setting, kind)


def build_text(text: str, setting: str, kind: str):
    from pest import DEFAULT_OPTIMIZER_PASSES, Optimizer, Parser

    from pv import monitor

    # a history that makes a later call loop for ever must end as a result that differs from the pristine one,
    # not as a watchdog: every parse runs under the logical step budget of pv.monitor
    monitor.install()
    monitor.set_budget(STEP_BUDGET)
    if setting == "none":
        p = Parser.from_grammar(text, optimizer=None)
    elif setting == "default":
        p = Parser.from_grammar(text)
    elif setting == "debug":
        p = Parser.from_grammar(text, debug=True)
    else:
        idx = [int(x) for x in setting[5:].split(",")]
        p = Parser.from_grammar(text, optimizer=Optimizer([DEFAULT_OPTIMIZER_PASSES[i] for i in idx]))
    if kind == "interp":
        return p
    from pv.modes import load_generated

    mod = load_generated(p.generate())
    monitor.attach(mod)
    return mod


def observe(obj, rule: str, text: str, start: int):
    from pv.modes import run

    return run(obj, rule, text, start)


def all_observed_calls() -> list[tuple]:
    out = []
    for gid, calls in CALLS.items():
        for rule, text in calls:
            for st in (0, 1) if len(text) > 3 else (0,):
                for setting in SETTINGS:
                    for kind in KINDS:
                        out.append((gid, setting, kind, rule, text, st))
    return out


# ----------------------------------------------------------------------------- pristine oracle


def pristine_main() -> None:
    """python -m pv.checks.c15 pristine <json call>  (fresh interpreter, no history)."""
    call = json.loads(sys.argv[2])
    sys.setrecursionlimit(20000)
    gid, setting, kind, rule, text, st = call
    res = observe(build(gid, setting, kind), rule, text, st)
    sys.stdout.write(json.dumps(res))


def pristine(call: tuple, env: dict) -> tuple[tuple, object]:
    try:
        p = subprocess.run([PYTHON, "-B", "-m", "pv.checks.c15", "pristine", json.dumps(list(call))], cwd=VERIF, env=env, capture_output=True, text=True, timeout=120, check=False)
    except subprocess.TimeoutExpired:
        return call, None
    if p.returncode != 0:
        return call, None
    return call, _tup(json.loads(p.stdout))


def _tup(x):
    return tuple(_tup(i) for i in x) if isinstance(x, list) else x


# ----------------------------------------------------------------------------- history worker


def history_worker(shard: dict) -> dict:  # noqa: PLR0912, PLR0915
    acc = Acc()
    rnd = random.Random(shard["seed"])
    table = {tuple(k): _tup(v) for k, v in shard["table"]}
    calls = list(table)
    by_obj: dict[tuple, list] = {}
    for c in calls:
        by_obj.setdefault(c[:3], []).append(c)
    objs: dict[tuple, object] = {}
    vk: dict = {}
    recent: list[str] = []

    def op_create():
        gid = rnd.choice(list(CALLS))
        setting = rnd.choice(SETTINGS)
        kind = rnd.choice(KINDS)
        objs[(gid, setting, kind, rnd.randrange(3))] = build(gid, setting, kind)
        recent.append(f"create {gid}/{setting}/{kind}")
        acc.count("history.ops.create_" + ("optimized" if setting != "none" else "unoptimized") + "_" + kind)

    def op_parse():
        if not objs:
            return op_create()
        key = rnd.choice(list(objs))
        rule, text = rnd.choice(CALLS[key[0]])
        r = observe(objs[key], rule, text, 0)
        recent.append(f"parse {key[0]}/{key[1]}/{key[2]} {rule} {text[:12]!r} -> {r[0]}")
        acc.count("history.ops.parse_" + r[0])
        return None

    def op_generate():
        cands = [k for k in objs if k[2] == "interp"]
        if not cands:
            return op_create()
        objs[rnd.choice(cands)].generate()
        recent.append("generate")
        acc.count("history.ops.generate")
        return None

    def op_forget():
        if len(objs) > 12:
            for k in rnd.sample(list(objs), 6):
                del objs[k]
        acc.count("history.ops.forget")

    ops = [op_create, op_create, op_parse, op_parse, op_parse, op_generate, op_forget]
    for step in range(shard["steps"]):
        rnd.choice(ops)()
        del recent[:-12]
        if step % 3 == 2:
            call = rnd.choice(calls)
            if objs and rnd.random() < 0.6:
                # prefer a call on an object that already lived through the history
                k0 = rnd.choice(list(objs))
                match = by_obj.get(k0[:3])
                if match:
                    call = rnd.choice(match)
            gid, setting, kind, rule, text, st = call
            # observe on an object created NOW (after the history) or on one that already lived through it
            key = next((k for k in objs if k[:3] == (gid, setting, kind)), None)
            reuse = key is not None and rnd.random() < 0.7
            obj = objs[key] if reuse else build(gid, setting, kind)
            got = observe(obj, rule, text, st)
            acc.count("history.observed_calls")
            acc.count("history.observed_on_" + ("reused_object" if reuse else "fresh_object"))
            acc.count("history.observed_result." + got[0])
            acc.nontrivial(call, reuse, step // 50)
            if got != table[call]:
                k = (setting != "none", kind, got[0], table[call][0])
                if vk.get(k, 0) < 2:
                    vk[k] = vk.get(k, 0) + 1
                    acc.violation(
                        "c15-history",
                        {"what": "result depends on what happened earlier in the process", "call": list(call), "reused_object": reuse, "pristine_process": table[call],
                         "after_history": got, "last_operations": list(recent), "history_seed": shard["seed"], "step": step},
                    )
                else:
                    acc.nviol += 1
            if not reuse:
                objs[(gid, setting, kind, 9)] = obj
    acc.sample({"history_seed": shard["seed"], "last_operations": recent[-6:]})
    return acc.dump()


# ----------------------------------------------------------------------------- random-grammar histories

RSETTINGS = ["none", "default", "pipe:3,1", "pipe:1,3,0,4", "debug"]


def random_pool(seed: int, n: int) -> list[dict]:
    """n seeded random grammars (all features) with a handful of calls each."""
    from pv.gen import grammars as G
    from pv.ref.refpeg import grammar_text as show

    out = []
    i = 0
    while len(out) < n and i < n * 3:
        rnd = random.Random(seed_int(seed, "pool", i))
        i += 1
        prof = dict(G.PROFILES[rnd.choice(["full", "full", "trivia", "stack"])])
        prof.update({"tags": True, "skipuntil": True, "skipuntil_ci": True, "trivia_refs": rnd.random() < 0.4, "push_empty": rnd.random() < 0.3})
        rules = G.GrammarGen(rnd, prof).grammar(maxdepth=3)
        names = [k for k in rules if k not in ("WHITESPACE", "COMMENT")]
        alpha = G.alphabet(rules, " ")
        d = G.Deriver(rules, rnd, alpha)
        calls: list[list] = []
        for _ in range(12):
            rule = rnd.choice(names[:2])
            t = d.derive(rule)
            if rnd.random() < 0.35:
                t = G.mutate(t, rnd, alpha)
            if len(t) <= 40 and [rule, t] not in calls:
                calls.append([rule, t])
        calls.append([names[0], ""])
        out.append({"gid": f"rnd{len(out)}", "text": show(rules), "calls": calls[:8]})
    return out


def pristine_batch_main() -> None:
    """python -m pv.checks.c15 pristine_batch <json file>: every call on a freshly built object, in a fresh interpreter."""
    sys.setrecursionlimit(20000)
    with open(sys.argv[2], encoding="utf-8") as fd:
        job = json.load(fd)
    res = []
    for setting, kind, rule, text in job["calls"]:
        try:
            obj = build_text(job["text"], setting, kind)
        except Exception as e:  # noqa: BLE001
            res.append(["build-error", type(e).__name__])
            continue
        res.append(observe(obj, rule, text, 0))
    sys.stdout.write(json.dumps(res))


def pristine_batch(g: dict, env: dict, workdir: str):
    calls = [[s, k, r, t] for s in RSETTINGS for k in KINDS for r, t in g["calls"]]
    path = os.path.join(workdir, g["gid"] + ".json")
    with open(path, "w", encoding="utf-8") as fd:
        json.dump({"text": g["text"], "calls": calls}, fd)
    try:
        p = subprocess.run([PYTHON, "-B", "-m", "pv.checks.c15", "pristine_batch", path], cwd=VERIF, env=env, capture_output=True, text=True, timeout=300, check=False)
    except subprocess.TimeoutExpired:
        return None
    if p.returncode != 0:
        return None
    return {(s, k, r, t): _tup(v) for (s, k, r, t), v in zip(calls, json.loads(p.stdout))}


def random_history_worker(shard: dict) -> dict:  # noqa: PLR0912, PLR0915
    """Histories over seeded RANDOM grammars (mixed with the fixed pool): the oracle is one fresh process per grammar
    in which every call runs on a freshly built object."""
    import tempfile

    acc = Acc()
    rnd = random.Random(shard["seed"])
    pool = random_pool(shard["seed"], shard["grammars"])
    env = dict(os.environ)
    env["PYTHONHASHSEED"] = "0"
    tables: dict[str, dict] = {}
    with tempfile.TemporaryDirectory(prefix="pv-c15-") as wd:
        for g in pool:
            t = pristine_batch(g, env, wd)
            if t is None:
                acc.inconclusive.append(f"pristine batch oracle failed for a random grammar (seed {shard['seed']}, {g['gid']})")
                continue
            tables[g["gid"]] = t
            acc.count("rhistory.pristine_batch_processes")
            acc.count("rhistory.pristine_calls", len(t))
    pool = [g for g in pool if g["gid"] in tables]
    if not pool:
        return acc.dump()
    byid = {g["gid"]: g for g in pool}
    objs: dict[tuple, object] = {}
    recent: list[str] = []
    vk: dict = {}

    def create():
        if rnd.random() < 0.25:
            # objects of the fixed pool live in the same process: cross-grammar contamination goes both ways
            gid = rnd.choice(list(CALLS))
            setting, kind = rnd.choice(SETTINGS), rnd.choice(KINDS)
            o = build(gid, setting, kind)
            rule, text = rnd.choice(CALLS[gid])
            observe(o, rule, text, 0)
            recent.append(f"create+parse fixed {gid}/{setting}/{kind}")
            acc.count("rhistory.ops.fixed_pool_object")
            return
        g = rnd.choice(pool)
        setting, kind = rnd.choice(RSETTINGS), rnd.choice(KINDS)
        try:
            objs[(g["gid"], setting, kind, rnd.randrange(2))] = build_text(g["text"], setting, kind)
        except Exception as e:  # noqa: BLE001
            objs[(g["gid"], setting, kind, 0)] = ("build-error", type(e).__name__)
        recent.append(f"create {g['gid']}/{setting}/{kind}")
        acc.count("rhistory.ops.create")

    def parse():
        live = [k for k, o in objs.items() if not isinstance(o, tuple)]
        if not live:
            return create()
        key = rnd.choice(live)
        rule, text = rnd.choice(byid[key[0]]["calls"])
        r = observe(objs[key], rule, text, 0)
        recent.append(f"parse {key[0]}/{key[1]}/{key[2]} {rule} {text[:12]!r} -> {r[0]}")
        acc.count("rhistory.ops.parse_" + r[0])
        return None

    def generate():
        live = [k for k, o in objs.items() if k[2] == "interp" and not isinstance(o, tuple)]
        if live:
            objs[rnd.choice(live)].generate()
            acc.count("rhistory.ops.generate")

    def forget():
        if len(objs) > 14:
            for k in rnd.sample(list(objs), 7):
                del objs[k]

    ops = [create, create, parse, parse, parse, generate, forget]
    for step in range(shard["steps"]):
        rnd.choice(ops)()
        del recent[:-12]
        if step % 3 != 2:
            continue
        g = rnd.choice(pool)
        setting, kind = rnd.choice(RSETTINGS), rnd.choice(KINDS)
        if objs and rnd.random() < 0.6:
            # prefer a call on an object that already lived through the history
            k0 = rnd.choice(list(objs))
            g, setting, kind = byid[k0[0]], k0[1], k0[2]
        rule, text = rnd.choice(g["calls"])
        key = next((k for k in objs if k[:3] == (g["gid"], setting, kind)), None)
        reuse = key is not None and rnd.random() < 0.7
        if reuse:
            obj = objs[key]
        else:
            try:
                obj = build_text(g["text"], setting, kind)
            except Exception as e:  # noqa: BLE001
                obj = ("build-error", type(e).__name__)
        got = obj if isinstance(obj, tuple) else observe(obj, rule, text, 0)
        want = tables[g["gid"]][(setting, kind, rule, text)]
        acc.count("rhistory.observed_calls")
        acc.count("rhistory.observed_on_" + ("reused_object" if reuse else "fresh_object"))
        acc.count("rhistory.observed_result." + str(got[0]))
        acc.nontrivial(g["text"], setting, kind, rule, text, reuse)
        if got != want:
            k = (setting != "none", kind, got[0], want[0])
            if vk.get(k, 0) < 2:
                vk[k] = vk.get(k, 0) + 1
                acc.violation(
                    "c15-random-history",
                    {"what": "result depends on what happened earlier in the process", "grammar": g["text"], "call": [setting, kind, rule, text], "reused_object": reuse,
                     "pristine_process": want, "after_history": got, "last_operations": list(recent), "history_seed": shard["seed"], "step": step},
                )
            else:
                acc.nviol += 1
    acc.sample({"random_history_seed": shard["seed"], "grammar": pool[0]["text"], "calls": pool[0]["calls"][:3]})
    return acc.dump()


# ----------------------------------------------------------------------------- where to aim the thread stress

_PRIM = (int, str, bool, float, bytes, type(None))


def _summ(v, depth: int = 0):
    if isinstance(v, _PRIM):
        return v if not isinstance(v, str) or len(v) < 200 else (len(v), v[:40])
    if isinstance(v, (list, tuple, set, frozenset)):
        return (type(v).__name__, len(v), tuple(_summ(x, depth + 1) if depth < 2 else id(x) for x in list(v)[:64]))
    if isinstance(v, dict):
        return ("dict", len(v), tuple((_summ(k, 2), _summ(x, depth + 1) if depth < 2 else id(x)) for k, x in list(v.items())[:64]))
    return ("obj", type(v).__name__, id(v))


def _attr_names(o) -> list[str]:
    names: list[str] = []
    for c in type(o).__mro__:
        sl = c.__dict__.get("__slots__", ())
        names += [sl] if isinstance(sl, str) else list(sl)
    if hasattr(o, "__dict__"):
        names += list(vars(o))
    return names


def shared_state_fingerprint(obj) -> dict:
    """Every attribute of every grammar object reachable from a Parser (or every global of a generated module), summarised.

    Not a verdict: lazily filled caches are legitimate.  It only tells the thread stress WHERE parse() keeps writing to
    objects that all calls share, after warm-up, so that the threads can be aimed at that rule."""
    import types

    from pest.grammar.expression import Expression

    fp: dict = {}
    if isinstance(obj, types.ModuleType):
        for k, v in vars(obj).items():
            if not k.startswith("__") and k != "ParserState":
                fp[("global", k)] = _summ(v)
        return fp
    seen: set[int] = set()
    todo = list(obj.rules.values()) + [obj]
    while todo:
        n = todo.pop()
        if id(n) in seen:
            continue
        seen.add(id(n))
        for name in _attr_names(n):
            try:
                v = getattr(n, name)
            except AttributeError:
                fp[(id(n), type(n).__name__, name)] = "<unset>"
                continue
            fp[(id(n), type(n).__name__, name)] = _summ(v)
            vs = v if isinstance(v, (list, tuple)) else list(v.values()) if isinstance(v, dict) else [v]
            for x in vs:
                if isinstance(x, Expression) and id(x) not in seen:
                    todo.append(x)
    return fp


def mutating_rules(obj, calls) -> list[tuple[str, str]]:
    """Rules whose parse() still changes shared grammar objects after two warm-up rounds -> [(rule, 'Class.attribute')]."""
    by: dict[str, list[str]] = {}
    for r, t in calls:
        by.setdefault(r, []).append(t)
    out = []
    for r, ts in by.items():
        for _ in range(2):
            for t in ts:
                observe(obj, r, t, 0)
        f0 = shared_state_fingerprint(obj)
        for t in ts:
            observe(obj, r, "".join(list(t)), 0)  # a new string object with the same content
            f1 = shared_state_fingerprint(obj)
            if f1 != f0:
                k = next(k for k in f1 if f0.get(k) != f1[k])
                out.append((r, f"{k[1]}.{k[2]}" if len(k) == 3 else f"global {k[1]}"))
                break
    return out


# ----------------------------------------------------------------------------- schedule worker


def schedule_worker(shard: dict) -> dict:  # noqa: PLR0915
    import pest

    acc = Acc()
    rnd = random.Random(shard["seed"])
    # the fixed pool plus a few seeded random grammars
    CALLS = dict(globals()["CALLS"])  # noqa: N806
    texts: dict[str, str] = {}
    for g in random_pool(shard["seed"], shard.get("random_grammars", 3)):
        CALLS[g["gid"]] = [tuple(c) for c in g["calls"]]
        texts[g["gid"]] = g["text"]
        acc.count("schedule.random_grammars")

    def build(gid, setting, kind):  # noqa: ANN001
        return build_text(texts[gid], setting, kind) if gid in texts else globals()["build"](gid, setting, kind)

    shared = []
    for i in range(shard["objects"]):
        gid = rnd.choice(list(texts)) if texts and i % 2 else rnd.choice(list(CALLS))
        setting = rnd.choice(SETTINGS)
        kind = rnd.choice(KINDS)
        shared.append((gid, setting, kind, build(gid, setting, kind)))
    focus = bool(shard.get("focus"))
    if focus:
        # aim all threads at ONE rule of ONE object, with different input objects: preferably a rule whose parse() keeps
        # writing to grammar objects shared by all calls (none on a tree without per-parse state on shared nodes)
        cands = [(rnd.choice(list(CALLS)), rnd.choice(SETTINGS), rnd.choice(KINDS)) for _ in range(shard.get("scan", 8))]
        hot = []
        for c in cands:
            o = build(*c)
            acc.count("focus.objects_scanned")
            acc.count("focus.rules_scanned", len({r for r, _t in CALLS[c[0]]}))
            for rule, why in mutating_rules(o, CALLS[c[0]]):
                hot.append((c, rule, why))
                acc.add_to("focus.attributes_written_by_parse_after_warm_up", why)
        acc.count("focus.rules_that_write_shared_state", len(hot))
        if hot:
            c, rule, _why = rnd.choice(hot)
            acc.count("focus.runs_aimed_at_a_writing_rule")
        else:
            c = rnd.choice(cands)
            rule = rnd.choice(sorted({r for r, _t in CALLS[c[0]]}))
            acc.count("focus.runs_aimed_at_a_random_rule")
        from pv.gen import grammars as G

        own = [t for r, t in CALLS[c[0]] if r == rule]
        alpha = sorted(set("".join(t for _r, t in CALLS[c[0]])) | {"x"})
        more = [G.mutate(rnd.choice(own), rnd, alpha) for _ in range(4)] + [t + t for t in own[:2]] + [t for _r, t in CALLS[c[0]]][:4]
        seen_t: list[str] = []
        for t in own + more:
            if t not in seen_t:
                seen_t.append(t)
        CALLS = {c[0]: [(rule, "".join(list(t))) for t in seen_t]}
        shared = [(c[0], c[1], c[2], build(*c))]
    # baseline on separate, identically built objects, single-threaded, BEFORE any thread starts
    baseline = {}
    for gid, setting, kind, _o in shared:
        ref_obj = build(gid, setting, kind)
        for rule, text in CALLS[gid]:
            baseline[(gid, setting, kind, rule, text)] = observe(ref_obj, rule, text, 0)
    pest_dir = os.path.dirname(pest.__file__)
    tool = sys.monitoring.PROFILER_ID
    try:
        sys.monitoring.use_tool_id(tool, "pv-c15")
    except ValueError:
        tool = sys.monitoring.OPTIMIZER_ID
        sys.monitoring.use_tool_id(tool, "pv-c15")
    tl = threading.local()
    stats = {"switches": 0, "yields": 0, "lines": 0}
    last = [None]
    overlap: set = set()
    active: dict[int, str] = {}
    p_yield = shard["p_yield"]

    def on_line(code, _line):
        fn = code.co_filename
        if not (fn.startswith(pest_dir) or fn.startswith("<pvgen_")):
            return sys.monitoring.DISABLE
        tid = threading.get_ident()
        stats["lines"] += 1
        if last[0] != tid:
            stats["switches"] += 1
            prev = active.get(last[0])
            if prev is not None:
                overlap.add((prev, code.co_name))
            last[0] = tid
        active[tid] = code.co_name
        r = getattr(tl, "rnd", None)
        if r is not None and r.random() < p_yield:
            stats["yields"] += 1
            time.sleep(0)
        return None

    sys.monitoring.register_callback(tool, sys.monitoring.events.LINE, on_line)
    sys.monitoring.set_events(tool, sys.monitoring.events.LINE)
    old_interval = sys.getswitchinterval()
    sys.setswitchinterval(1e-6)
    bad: list[dict] = []
    lock = threading.Lock()
    ncalls = [0]

    def parser_thread(seed: int, n: int, same: bool):
        tl.rnd = random.Random(seed)
        r = random.Random(seed * 7 + 1)
        for _ in range(n):
            gid, setting, kind, obj = shared[0] if same else r.choice(shared)
            rule, text = CALLS[gid][0] if same else r.choice(CALLS[gid])
            got = observe(obj, rule, text, 0)
            with lock:
                ncalls[0] += 1
            if got != baseline[(gid, setting, kind, rule, text)]:
                with lock:
                    bad.append({"object": [gid, setting, kind], "rule": rule, "input": text, "baseline": baseline[(gid, setting, kind, rule, text)], "concurrent": got})

    def builder_thread(seed: int, n: int):
        tl.rnd = random.Random(seed)
        r = random.Random(seed * 11 + 3)
        for _ in range(n):
            gid = r.choice(list(CALLS))
            build(gid, r.choice(SETTINGS), r.choice(KINDS))
            with lock:
                stats["builds"] = stats.get("builds", 0) + 1

    threads = []
    T = shard["threads"]
    for t in range(T):
        threads.append(threading.Thread(target=parser_thread, args=(shard["seed"] * 100 + t, shard["calls_per_thread"], t < T // 3 and not focus)))
    for t in range(2):
        threads.append(threading.Thread(target=builder_thread, args=(shard["seed"] * 100 + 50 + t, shard["builds_per_thread"])))
    for th in threads:
        th.start()
    for th in threads:
        th.join()
    sys.monitoring.set_events(tool, 0)
    sys.monitoring.free_tool_id(tool)
    sys.setswitchinterval(old_interval)
    acc.count("schedule.runs")
    if focus:
        acc.count("focus.parse_calls", ncalls[0])
    acc.count("schedule.threads", len(threads))
    acc.count("schedule.parse_calls", ncalls[0])
    acc.count("schedule.concurrent_builds", stats.get("builds", 0))
    acc.count("schedule.thread_switches_inside_pest_frames", stats["switches"])
    acc.count("schedule.yields_injected", stats["yields"])
    acc.count("schedule.lines_monitored", stats["lines"])
    for pr in overlap:
        acc.add_to("function_overlap_pairs", pr)
    acc.nontrivial("schedule", shard["seed"])
    for b in bad[:3]:
        acc.violation("c15-schedule", {"what": "result under concurrency differs from the single-threaded baseline", "schedule_seed": shard["seed"], "shard": dict(shard), **b})
    acc.nviol += max(0, len(bad) - 3)
    acc.sample({"schedule_seed": shard["seed"], "threads": len(threads), "switches_inside_pest_frames": stats["switches"], "yields_injected": stats["yields"]})
    return acc.dump()


# ----------------------------------------------------------------------------- main


def main(tier: str, seed: int) -> int:
    run = Run("C15", tier, seed)
    rnd = random.Random(seed_int("C15", seed))
    calls = all_observed_calls()
    rnd.shuffle(calls)
    calls = calls[: run.pick(220, 1200)]
    env = dict(os.environ)
    env["PYTHONHASHSEED"] = "0"
    table = []
    with ThreadPoolExecutor(max_workers=NCPU) as ex:
        for call, res in ex.map(lambda c: pristine(c, env), calls):
            if res is None:
                run.acc.inconclusive.append(f"pristine oracle process failed for {call}")
            else:
                table.append([list(call), res])
    run.acc.count("history.pristine_oracle_processes", len(table))
    # the pristine table itself must be reproducible (a second fresh process gives the same answer)
    with ThreadPoolExecutor(max_workers=NCPU) as ex:
        for call, res in ex.map(lambda c: pristine(tuple(c[0]), env), table[:32]):
            want = next(_tup(v) for k, v in table if tuple(k) == call)
            if res != want:
                run.acc.violation("c15-history", {"what": "two fresh processes disagree on the same call", "call": list(call), "first": want, "second": res})
    shards = [{"seed": seed_int("C15", seed, "h", j), "steps": run.pick(240, 2500), "table": table} for j in range(16)]
    run_workers("pv.checks.c15", "history_worker", shards, timeout_s=run.pick(900, 7200), acc=run.acc)
    shards = [{"seed": seed_int("C15", seed, "rh", j), "grammars": run.pick(5, 14), "steps": run.pick(240, 2400)} for j in range(run.pick(16, 64))]
    run_workers("pv.checks.c15", "random_history_worker", shards, timeout_s=run.pick(900, 7200), acc=run.acc)
    shards = [
        {"seed": seed_int("C15", seed, "s", j) % 100000, "objects": 6, "threads": rnd.choice([8, 12, 16]), "calls_per_thread": run.pick(14, 60), "builds_per_thread": run.pick(3, 12), "p_yield": rnd.choice([0.01, 0.03, 0.08])}
        for j in range(run.pick(16, 96))
    ]
    shards += [
        {"seed": seed_int("C15", seed, "f", j) % 100000, "objects": 1, "focus": True, "scan": run.pick(6, 10), "threads": rnd.choice([8, 12]), "calls_per_thread": run.pick(30, 120), "builds_per_thread": 1,
         "p_yield": rnd.choice([0.05, 0.15, 0.3]), "random_grammars": 3}
        for j in range(run.pick(16, 64))
    ]
    run_workers("pv.checks.c15", "schedule_worker", shards, timeout_s=run.pick(900, 7200), acc=run.acc)
    run.acc.count("calls", run.acc.c["history.observed_calls"] + run.acc.c["rhistory.observed_calls"] + run.acc.c["schedule.parse_calls"])
    return run.finish(
        rule=(
            "history part: per worker process one long seeded history over {create parser for one of 9 grammars with optimizer None / default / 4 custom "
            "pipelines / debug=True, interpreted or generated; generate(); succeeding and failing parses on any live object; dropping objects}, with an "
            "observed call every third operation, on a reused or a newly built object, compared (tree, or failure position + expected/unexpected sets) "
            "with the same call in a fresh interpreter process (one process per observed call, table computed once per run). random-grammar histories: "
            "the same over seeded random grammars of all profiles (5-14 per worker, mixed with objects of the fixed pool), oracle = one fresh process per "
            "grammar in which every call runs on a freshly built object. schedule part: short runs "
            "of 8-16 parser threads on 6 shared objects (a third of the threads on the SAME object, rule and input) plus 2 threads building and optimizing "
            "new parsers, switch interval 1 us, seeded sleep(0) injection on LINE events inside pest/ and generated-module frames; each result compared "
            "with the single-threaded baseline; focus runs: a scan (attribute fingerprint of every grammar object / module global before and after a call, after "
            "warm-up) finds rules whose parse() keeps writing to objects shared by all calls, and all threads of the run are aimed at one such rule (a random "
            "rule when there is none, as on a tree without per-parse state on shared nodes) with different input objects. distinct_nontrivial = distinct (observed call, reused?, history segment) + schedule runs."
        ),
        assumptions=[
            "the fresh-process result is the specification of 'depends only on grammar, optimizer setting, start rule, input and start position'",
            "CPython with the GIL: byte-code level interleaving is the only schedule dimension; it is widened by yield injection, not enumerated",
        ],
        evaluations_key="calls",
        floors={
            "history.observed_calls": 800, "history.pristine_oracle_processes": 150, "history.observed_on_reused_object": 200, "history.ops.create_optimized_interp": 100, "rhistory.observed_calls": 800,
            "rhistory.pristine_batch_processes": 40, "rhistory.observed_on_reused_object": 200,
            "history.ops.create_unoptimized_interp": 20, "schedule.parse_calls": 1000, "schedule.thread_switches_inside_pest_frames": 5000, "schedule.yields_injected": 2000,
            "focus.objects_scanned": 50, "focus.parse_calls": 2000,
        },
    )


def replay(path: str) -> int:
    """Re-executes the witness: the same seeded history (or 5 attempts at the same seeded schedule) on the current tree."""
    body = load_replay(path)
    v = body["violation"]
    print(json.dumps(v, indent=1)[:2500])
    tier, seed = body.get("tier", "quick"), int(body.get("seed", 0))
    quick = tier == "quick"
    again = None
    if v["kind"] == "c15-history" and "history_seed" in v:
        # the history worker draws its observed calls from the run's pristine table: rebuild exactly that table
        rnd = random.Random(seed_int("C15", seed))
        calls = all_observed_calls()
        rnd.shuffle(calls)
        calls = calls[: 220 if quick else 1200]
        env = dict(os.environ)
        env["PYTHONHASHSEED"] = "0"
        with ThreadPoolExecutor(max_workers=NCPU) as ex:
            table = [[list(c), r] for c, r in ex.map(lambda c: pristine(c, env), calls) if r is not None]
        again = history_worker({"seed": v["history_seed"], "steps": v["step"] + 1, "table": table})
    elif v["kind"] == "c15-random-history":
        again = random_history_worker({"seed": v["history_seed"], "grammars": 5 if quick else 14, "steps": v["step"] + 1})
    elif v["kind"] == "c15-schedule":
        for attempt in range(5):
            sh = v.get("shard") or {"seed": v["schedule_seed"], "objects": 6, "threads": 12, "calls_per_thread": 60, "builds_per_thread": 3, "p_yield": 0.08, "focus": attempt % 2 == 1, "scan": 10}
            again = schedule_worker(dict(sh))
            if again["violations"]:
                break
        if not again["violations"]:
            print("schedules are not deterministic: 5 attempts with the same seed did not show a difference on this tree")
    if again is not None and not again["violations"]:
        print("not reproduced on the current tree")
        return 0
    if again is not None:
        print("reproduced:", json.dumps(again["violations"][0])[:1500])
    print(f"VIOLATION property=C15 replay={path}")
    return 1


if __name__ == "__main__":
    if len(sys.argv) > 1 and sys.argv[1] == "pristine_batch":
        pristine_batch_main()
    elif len(sys.argv) > 1 and sys.argv[1] == "pristine":
        pristine_main()
