"""C13 - parse failures carry a valid position and a message that always renders."""

from __future__ import annotations

from pv.checks import _engine_check as E
from pv.common import Run

PROP = "C13"
JUDGES = ["c13"]


def main(tier: str, seed: int) -> int:
    run = Run(PROP, tier, seed)
    extra = {"start_rules": "all", "positions": True, "extra_alpha": " #\n", "profile_overrides": {"more_builtins": True, "trivia_refs": True, "trivia_explicit": True, "push_empty": True, "zero_counts": True}}
    shards = []
    shards += E.random_shards(PROP, run, JUDGES, profile="full", count=run.pick(45, 500), cap=run.pick(150, 300), maxlen=run.pick(4, 5), extra={**extra, "long_inputs": 2})
    shards += E.random_shards(PROP, run, JUDGES, profile="trivia", count=run.pick(30, 300), cap=run.pick(150, 300), maxlen=4, extra=extra)
    shards += E.random_shards(PROP, run, JUDGES, profile="core", count=run.pick(30, 300), cap=run.pick(150, 300), maxlen=4, extra={"start_rules": "all", "positions": True, "extra_alpha": "\né"})
    shards += E.random_shards(PROP, run, JUDGES, profile="core", count=run.pick(30, 300), cap=run.pick(150, 300), maxlen=4, extra={"start_rules": "all", "positions": True, "extra_alpha": "\r\n", "profile_overrides": {"linebreak_lits": True}})
    shards += E.matrix_shards(PROP, run, JUDGES, sample=run.pick(1500, 0), cap=run.pick(150, 400), extra={"positions": True, "extra_alpha": " #\n"})
    shards += E.scale_shards(PROP, run, JUDGES, extra={"positions": True})
    E.execute(run, shards)
    from pv.checks import bundled

    bundled.run_bundled(run, PROP, JUDGES)
    return run.finish(
        rule=(
            "every PestParsingError raised in the engine workload (random grammars + matrix, inputs over the grammar alphabet plus newline and a "
            "non-ASCII letter, every start position of short inputs, 4 modes) and by the bundled grammars on multi-line mutated corpora is checked: "
            "furthest_pos in {-1} U [start_pos, len], expected/unexpected names are rules or built-ins, str()/detailed_message()/expected_labels() "
            "render, printed line:col and source line equal a count/rfind reference; monitor T4 checks every fail() position online. "
            "distinct_nontrivial = distinct (grammar, input) cases run."
        ),
        assumptions=["line breaks are '\\n' only; texts with other splitlines() separators are not judged for line:col"],
        evaluations_key="c13.failures_checked",
        floors={
            "c13.failures_checked": 20000, "c13.position_class.at_start": 500, "c13.position_class.at_end": 500, "c13.position_class.interior": 500,
            "c13.multi_line_inputs": 500, "c13.failure_right_after_newline": 50, "t4.fail_calls": 10000, "bundled.c13.failures_checked": 200,
        },
    )


def replay(path: str) -> int:
    return E.replay(PROP, path, JUDGES)
