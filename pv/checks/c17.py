"""C17 - bundled JSON and calculator languages agree with independent references.

JSON: a generator emits RFC 8259 documents together with its own token tree (raw number and
string source slices).  json.loads validates the generator; the parse trees of both bundled
JSON grammars, in 4 modes, must mirror the token tree, and every proper prefix of a document
(written without trailing white space) must be rejected.

Calculators: random expressions are evaluated by the three bundled implementations (driven
through their own code on pairs produced by all four execution modes; the parser modules
are regenerated from the current tree into a TEMPORARY package copy, never into /repo) and
by an independent recursive-descent evaluator written from the documented precedence table.
"""

from __future__ import annotations

import importlib
import json
import math
import os
import random
import shutil
import sys
import tempfile

from pv.common import REPO, Acc, Run, load_replay, run_workers, seed_int
from pv.modes import Modes

WS = [" ", "\t", "\n", "\r", "  ", " \n "]

# ------------------------------------------------------------------------------- JSON generator


class JGen:
    def __init__(self, rnd: random.Random):
        self.r = rnd

    def ws(self) -> str:
        return self.r.choice(WS) if self.r.random() < 0.25 else ""

    def number(self):
        r = self.r
        i = r.choice(["0", "1", "7", "10", "42", "1234567890", "9007199254740993"])
        s = ("-" if r.random() < 0.3 else "") + i
        if r.random() < 0.4:
            s += "." + r.choice(["0", "5", "25", "000", "123456789"])
        if r.random() < 0.3:
            s += r.choice(["e", "E"]) + r.choice(["", "+", "-"]) + r.choice(["0", "1", "2", "10", "05"])
        return s, ("num", s)

    def string(self):
        r = self.r
        parts = []
        for _ in range(r.choice([0, 1, 1, 2, 3, 6])):
            c = r.random()
            if c < 0.5:
                parts.append(r.choice(["a", "Z", " ", "xyz", "0", "'", "{", "]", ":", ","]))
            elif c < 0.7:
                parts.append(r.choice(['\\"', "\\\\", "\\/", "\\b", "\\f", "\\n", "\\r", "\\t"]))
            elif c < 0.82:
                parts.append(r.choice(["\\u0041", "\\u00e9", "\\uFFFF", "\\u0000", "\\ud83d\\ude00", "\\uABCD", "\\u001f"]))
            else:
                parts.append(r.choice(["é", "ß", "中", "😀", " ", "\x7f", " "]))
        raw = '"' + "".join(parts) + '"'
        return raw, ("str", raw)

    def value(self, depth: int):
        r = self.r
        c = r.random()
        if depth > 0 and c < 0.25:
            return self.array(depth - 1)
        if depth > 0 and c < 0.5:
            return self.obj(depth - 1)
        if c < 0.65:
            return self.number()
        if c < 0.8:
            return self.string()
        if c < 0.88:
            return "true", ("true",)
        if c < 0.94:
            return "false", ("false",)
        return "null", ("null",)

    def array(self, depth: int):
        n = self.r.choice([0, 0, 1, 2, 3, 5])
        items = [self.value(depth) for _ in range(n)]
        s = "[" + self.ws() + ("," .join(self.ws() + t + self.ws() for t, _ in items)) + "]"
        return s, ("arr", [tok for _, tok in items])

    def obj(self, depth: int):
        n = self.r.choice([0, 0, 1, 2, 3, 4])
        members = []
        parts = []
        for _ in range(n):
            ks, ktok = self.string()
            vs, vtok = self.value(depth)
            parts.append(self.ws() + ks + self.ws() + ":" + self.ws() + vs + self.ws())
            members.append((ktok[1], vtok))
        s = "{" + self.ws() + ",".join(parts) + "}"
        return s, ("obj", members)

    @staticmethod
    def size_sweep() -> list:
        """Deterministic: one document per string length 2^k + d (k = 5..12, d = -2..2), plain and with an escape last."""
        out = []
        for k in range(5, 13):
            for d in (-2, -1, 0, 1, 2):
                n = (1 << k) + d
                for tail in ("", "\\n", "\u00e9"):
                    body = "".join("abcdefgh xyz0123"[(j * 7 + k) % 16] for j in range(n - (1 if tail else 0))) + tail
                    raw = '"' + body + '"'
                    out.append(("[" + raw + ',"x"]', ("arr", [("str", raw), ("str", '"x"')]), f"sweep-string:{n}{'+tail' if tail else ''}"))
        return out

    def big_document(self):
        """Documents whose SIZE is the point: strings whose length sits on and around powers of two, long arrays and
        objects, deep nesting, long numbers (fast paths, windows and chunking only show from some size on)."""
        r = self.r
        kind = r.choice(["string", "string", "string_tail", "array", "object", "nesting", "number"])
        if kind in ("string", "string_tail"):
            n = (1 << r.randint(5, 12)) + r.choice([-3, -2, -1, 0, 1, 2, 3])
            body = [r.choice("abcdefgh xyz0123") for _ in range(n)]
            if kind == "string_tail":
                # the last item before the closing quote is an escape or a non-ASCII character
                body[-1] = r.choice(["\\n", "\\\\", '\\"', "\\u00e9", "\u00e9", "\U0001f600"])
            raw = '"' + "".join(body) + '"'
            lead = [("num", "1")] * r.choice([0, 1])
            s = "[" + "".join("1," for _ in lead) + raw + r.choice(["", ",2", ', "x"']) + "]"
            tail = [("num", "2")] if s.endswith(",2]") else [("str", '"x"')] if s.endswith('"x"]') else []
            return s, ("arr", lead + [("str", raw)] + tail), f"{kind}:{n}"
        if kind == "array":
            n = r.choice([100, 255, 256, 1000, 1024, 1025])
            items = [self.number() if r.random() < 0.7 else self.string() for _ in range(n)]
            return "[" + ",".join(t for t, _ in items) + "]", ("arr", [tok for _, tok in items]), f"array:{n}"
        if kind == "object":
            n = r.choice([100, 256, 1000])
            members = [('"k%d"' % k, self.number()) for k in range(n)]
            return "{" + ",".join(f"{k}:{v[0]}" for k, v in members) + "}", ("obj", [(k, v[1]) for k, v in members]), f"object:{n}"
        if kind == "nesting":
            d = r.choice([30, 64, 100, 150])
            s, tok = "7", ("num", "7")
            for k in range(d):
                if k % 2:
                    s, tok = "[" + s + "]", ("arr", [tok])
                else:
                    s, tok = '{"a":' + s + "}", ("obj", [('"a"', tok)])
            return s, tok, f"nesting:{d}"
        digits = "".join(r.choice("0123456789") for _ in range(r.choice([100, 300, 1023, 1024])))
        num = "1" + digits + r.choice(["", ".5", "e10"])
        return "[" + num + "]", ("arr", [("num", num)]), f"number:{len(num)}"

    def document(self):
        depth = self.r.choice([1, 2, 3, 4, 6])
        s, tok = self.array(depth) if self.r.random() < 0.5 else self.obj(depth)
        lead = self.ws()
        return lead + s, tok  # no trailing white space


def tok_value(tok):
    """Generator's token tree -> Python value (must equal json.loads(doc))."""
    k = tok[0]
    if k == "num":
        s = tok[1]
        return int(s) if s.lstrip("-").isdigit() else float(s)
    if k == "str":
        return json.loads(tok[1])
    if k == "true":
        return True
    if k == "false":
        return False
    if k == "null":
        return None
    if k == "arr":
        return [tok_value(x) for x in tok[1]]
    return {json.loads(kraw): tok_value(v) for kraw, v in tok[1]}


def has_duplicate_keys(tok) -> bool:
    if tok[0] == "obj":
        keys = [json.loads(k) for k, _ in tok[1]]
        return len(set(keys)) != len(keys) or any(has_duplicate_keys(v) for _, v in tok[1])
    if tok[0] == "arr":
        return any(has_duplicate_keys(v) for v in tok[1])
    return False


def mirror(pair, flavour: str, cnt: dict):
    """Parse-tree pair -> token-tree shape, per bundled grammar."""
    name = pair.name
    if name == "value":  # tests/grammars/json.pest wraps every value
        kids = list(pair.children)
        if len(kids) != 1:
            raise ValueError(f"value pair with {len(kids)} children")
        return mirror(kids[0], flavour, cnt)
    if name == "object":
        members = []
        for p in pair.children:
            if p.name != "pair" or len(p.children) != 2:
                raise ValueError(f"object child {p.name} with {len(p.children)} children")
            k, v = p.children
            if k.name != "string":
                raise ValueError("member key is not a string pair")
            members.append((k.text, mirror(v, flavour, cnt)))
            cnt["members"] += 1
        return ("obj", members)
    if name == "array":
        cnt["elements"] += len(pair.children)
        return ("arr", [mirror(c, flavour, cnt) for c in pair.children])
    if name == "string":
        cnt["strings"] += 1
        if flavour == "example":
            if len(pair.children) != 1 or pair.children[0].name != "inner" or pair.children[0].text != pair.text[1:-1]:
                raise ValueError("string pair does not hold one inner pair with the raw contents")
        return ("str", pair.text)
    if name == "number":
        cnt["numbers"] += 1
        return ("num", pair.text)
    if name in ("bool", "boolean"):
        return (pair.text,)
    if name == "null":
        return ("null",)
    raise ValueError(f"unexpected pair {name}")


def same_shape(tok, got) -> bool:
    if tok[0] != got[0]:
        return False
    if tok[0] == "num":
        return float(tok[1]) == float(got[1]) and tok[1] == got[1]
    if tok[0] == "str":
        return tok[1] == got[1]
    if tok[0] == "arr":
        return len(tok[1]) == len(got[1]) and all(same_shape(a, b) for a, b in zip(tok[1], got[1]))
    if tok[0] == "obj":
        return len(tok[1]) == len(got[1]) and all(ka == kb and same_shape(a, b) for (ka, a), (kb, b) in zip(tok[1], got[1]))
    return True


def json_worker(shard: dict) -> dict:  # noqa: PLR0912
    from pest import PestParsingError

    acc = Acc()
    grammars = {}
    for flavour, rel, start in (("tests", "tests/grammars/json.pest", "json"), ("example", "examples/json/json.pest", "json")):
        with open(os.path.join(REPO, rel), encoding="utf-8") as fd:
            md = Modes(fd.read())
        objs = {}
        for m in ("I", "GI", "O", "GO"):
            o = md.get(m)
            if o is None:
                acc.inconclusive.append(f"{rel} does not build in mode {m}: {md.errors[m]}")
            else:
                objs[m] = o
        grammars[flavour] = (objs, start)
    cnt = {"members": 0, "elements": 0, "strings": 0, "numbers": 0}
    vk: dict = {}

    def viol(kind, flavour, mode, doc, detail):
        n = vk.get((kind, flavour, mode), 0)
        vk[(kind, flavour, mode)] = n + 1
        if n >= 2:
            acc.nviol += 1
            return
        acc.violation("c17-json", {"what": kind, "grammar": flavour, "mode": mode, "document": doc, "detail": detail})

    sweep = JGen.size_sweep()[shard["sweep_part"] :: 16] if "sweep_part" in shard else []
    for i in range(shard["count"] + len(sweep)):
        rnd = random.Random(seed_int(shard["seed"], i))
        if i >= shard["count"]:
            doc, tok, what = sweep[i - shard["count"]]
            acc.count("json.size_sweep_documents")
        elif i % 8 == 5:
            doc, tok, what = JGen(rnd).big_document()
            acc.count("json.big_documents")
            acc.add_to("json.big_document_kinds", what)
        else:
            doc, tok = JGen(rnd).document()
        acc.count("json.documents")
        try:
            want = tok_value(tok)
            if not has_duplicate_keys(tok) and json.loads(doc) != want:
                acc.inconclusive.append(f"generator self-check failed on {doc!r}")
                continue
            json.loads(doc)
        except Exception as e:  # noqa: BLE001
            acc.inconclusive.append(f"generator produced a document json.loads rejects: {doc!r}: {e}")
            continue
        acc.nontrivial("json", doc)
        for flavour, (objs, start) in grammars.items():
            for m, o in objs.items():
                try:
                    pairs = o.parse(start, doc)
                except PestParsingError as e:
                    viol("valid RFC 8259 document rejected", flavour, m, doc, str(e).splitlines()[0])
                    continue
                except Exception as e:  # noqa: BLE001
                    viol("exception", flavour, m, doc, f"{type(e).__name__}: {e}")
                    continue
                acc.count("json.accepted")
                try:
                    top = [p for p in (pairs[0].children if flavour == "tests" else list(pairs)) if p.name != "EOI"]
                    if len(top) != 1:
                        raise ValueError(f"{len(top)} top-level values")
                    got = mirror(top[0], flavour, cnt)
                except ValueError as e:
                    viol("parse tree does not have the shape of a JSON value", flavour, m, doc, str(e))
                    continue
                if not same_shape(tok, got):
                    viol("parse tree does not mirror the document", flavour, m, doc, {"expected": tok, "observed": got})
                    continue
                acc.count("json.trees_mirrored")
                # every proper prefix is rejected
                if i % shard["prefix_every"] == 0 or len(doc) < 40 or i % 8 == 5 or i >= shard["count"]:
                    # (big documents: a seeded sample of prefixes plus the last 40)
                    ks = range(len(doc)) if len(doc) <= 400 else sorted({*rnd.sample(range(len(doc)), 25), *range(len(doc) - 40, len(doc))})
                    for k in ks:
                        try:
                            o.parse(start, doc[:k])
                        except PestParsingError:
                            acc.count("json.prefixes_rejected")
                            continue
                        except Exception as e:  # noqa: BLE001
                            viol("exception on prefix", flavour, m, doc[:k], f"{type(e).__name__}: {e}")
                            break
                        viol("proper prefix accepted", flavour, m, doc[:k], {"of": doc})
                        break
        if i == 0:
            acc.sample({"json_document": doc, "token_tree": tok})
    for k, v in cnt.items():
        acc.count("json." + k + "_compared", v)
    # the example program examples/json/json_.py (reads its grammar relative to the cwd)
    if shard.get("with_example_program"):
        tmp = tempfile.mkdtemp(prefix="pv-c17j-")
        old = os.getcwd()
        try:
            shutil.copytree(os.path.join(REPO, "examples"), os.path.join(tmp, "examples"), ignore=shutil.ignore_patterns("__pycache__"))
            os.chdir(tmp)
            sys.path.insert(0, tmp)
            mod = importlib.import_module("examples.json.json_")

            def ast_shape(v):
                n = type(v).__name__
                if n == "JSONObject":
                    return ("obj", [('"' + k + '"', ast_shape(x)) for k, x in v.items])
                if n == "JSONArray":
                    return ("arr", [ast_shape(x) for x in v.items])
                if n == "JSONString":
                    return ("str", '"' + v.s + '"')
                if n == "JSONNumber":
                    return ("numf", v.n)
                if n == "JSONBool":
                    return ("true",) if v.b else ("false",)
                return ("null",)

            def tok_f(t):
                if t[0] == "num":
                    return ("numf", float(t[1]))
                if t[0] == "arr":
                    return ("arr", [tok_f(x) for x in t[1]])
                if t[0] == "obj":
                    return ("obj", [(k, tok_f(x)) for k, x in t[1]])
                return t

            for i in range(min(shard["count"], 150)):
                rnd = random.Random(seed_int(shard["seed"], i))
                doc, tok = JGen(rnd).document()
                try:
                    got = ast_shape(mod.parse_json_file(doc))
                except Exception as e:  # noqa: BLE001
                    viol("examples/json/json_.py raised", "example-program", "O", doc, f"{type(e).__name__}: {e}")
                    continue
                acc.count("json.example_program_documents")
                if got != tok_f(tok):
                    viol("examples/json/json_.py AST differs", "example-program", "O", doc, {"expected": tok_f(tok), "observed": got})
        finally:
            os.chdir(old)
            if tmp in sys.path:
                sys.path.remove(tmp)
            shutil.rmtree(tmp, ignore_errors=True)
    return acc.dump()


# ------------------------------------------------------------------------------- calculators


class Abstain(Exception):
    pass


def gen_expr(rnd: random.Random, depth: int, toks: list[str]) -> None:
    """expr := operand (infix operand)*  with prefix/postfix stacks and parentheses."""

    def operand(d):
        for _ in range(rnd.choice([0, 0, 0, 1, 1, 2])):
            toks.append("-")
        c = rnd.random()
        if d > 0 and c < 0.3:
            toks.append("(")
            gen_expr(rnd, d - 1, toks)
            toks.append(")")
        elif c < 0.75:
            toks.append(str(rnd.randint(0, 9)))
        else:
            toks.append(rnd.choice(["x", "y", "z"]))
        for _ in range(rnd.choice([0, 0, 0, 0, 1, 2])):
            toks.append("!")

    operand(depth)
    for _ in range(rnd.choice([0, 1, 1, 2, 3, 4])):
        toks.append(rnd.choice(["+", "-", "*", "/", "^"]))
        operand(depth)


def render(toks: list[str], rnd: random.Random) -> str:
    out = []
    for i, t in enumerate(toks):
        if i:
            prev = toks[i - 1]
            if prev.isalnum() and t.isalnum():
                out.append(" ")
            else:
                out.append(rnd.choice(["", "", " ", "  ", "\t", "\n"]))
        out.append(t)
    return rnd.choice(["", " "]) + "".join(out) + rnd.choice(["", " ", "\n"])


VARS = {"x": 2, "y": 3, "z": 0}


def guarded(op: str, a, b=None):
    """Arithmetic of the examples' AST (operator.add/sub/mul/floordiv, pow, neg, math.factorial) with abstention guards."""
    if op == "!":
        if isinstance(a, (int, float)) and abs(a) > 1000:
            raise Abstain
        return math.factorial(a)
    if op == "neg":
        return -a
    if op == "^":
        if isinstance(b, (int, float)) and abs(b) > 64:
            raise Abstain
        if isinstance(a, (int, float)) and abs(a) > 10**6:
            raise Abstain
        return pow(a, b)
    if op == "+":
        return a + b
    if op == "-":
        return a - b
    if op == "*":
        return a * b
    return a // b


def ref_eval(toks: list[str]):
    """Independent evaluator from the documented table: + - < * / < ^ (right) < prefix - < postfix ! < primary."""
    i = 0

    def peek():
        return toks[i] if i < len(toks) else None

    def nxt():
        nonlocal i
        t = toks[i]
        i += 1
        return t

    def add_sub():
        v = mul_div()
        while peek() in ("+", "-"):
            op = nxt()
            v = guarded(op, v, mul_div())
        return v

    def mul_div():
        v = pow_()
        while peek() in ("*", "/"):
            op = nxt()
            v = guarded(op, v, pow_())
        return v

    def pow_():
        b = prefix()
        if peek() == "^":
            nxt()
            return guarded("^", b, pow_())
        return b

    def prefix():
        n = 0
        while peek() == "-":
            nxt()
            n += 1
        v = postfix()
        for _ in range(n):
            v = guarded("neg", v)
        return v

    def postfix():
        v = primary()
        while peek() == "!":
            nxt()
            v = guarded("!", v)
        return v

    def primary():
        t = nxt()
        if t == "(":
            v = add_sub()
            assert nxt() == ")"
            return v
        if t.isdigit():
            return int(t)
        return VARS[t]

    v = add_sub()
    assert i == len(toks)
    return v


def outcome(f):
    try:
        v = f()
    except Abstain:
        raise
    except RecursionError:
        raise Abstain from None
    except Exception as e:  # noqa: BLE001
        return ("exc", type(e).__name__)
    if isinstance(v, float):
        if v != v or abs(v) == float("inf"):
            return ("val", repr(v))
        return ("val", v)
    if isinstance(v, complex):
        return ("val", "complex")
    return ("val", v)


def prewalk_ok(node) -> bool:
    """Guarded pre-walk of an examples AST: nothing may hang (huge factorial / exponent)."""

    def ev(n):
        t = type(n).__name__
        if t == "IntExpr":
            return n.value
        if t == "VarExpr":
            return VARS[n.value]
        if t == "PrefixExpr":
            return guarded("neg", ev(n.right))
        if t == "PostfixExpr":
            return guarded("!", ev(n.expr))
        a, b = ev(n.left), ev(n.right)
        name = getattr(n.op, "__name__", "")
        return guarded({"add": "+", "sub": "-", "mul": "*", "floordiv": "/", "pow": "^"}[name], a, b)

    try:
        ev(node)
    except Abstain:
        return False
    except Exception:  # noqa: BLE001
        return True
    return True


def calc_worker(shard: dict) -> dict:  # noqa: PLR0912, PLR0915
    acc = Acc()
    tmp = tempfile.mkdtemp(prefix="pv-c17c-")
    old = os.getcwd()
    vk: dict = {}

    def viol(kind, impl, mode, text, detail):
        n = vk.get((kind, impl, mode), 0)
        vk[(kind, impl, mode)] = n + 1
        if n >= 2:
            acc.nviol += 1
            return
        acc.violation("c17-calc", {"what": kind, "implementation": impl, "mode": mode, "expression": text, "detail": detail})

    try:
        from pest import PestParsingError

        shutil.copytree(os.path.join(REPO, "examples"), os.path.join(tmp, "examples"), ignore=shutil.ignore_patterns("__pycache__"))
        cdir = os.path.join(tmp, "examples", "calculator")
        mds = {}
        for key, pestfile, outfile in (("calc", "calculator.pest", "parser.py"), ("prec", "grammar_encoded_prec.pest", "grammar_encoded_prec_parser.py")):
            with open(os.path.join(cdir, pestfile), encoding="utf-8") as fd:
                md = Modes(fd.read())
            for m in ("I", "GI", "O", "GO"):
                if md.get(m) is None:
                    acc.inconclusive.append(f"{pestfile} does not build in mode {m}: {md.errors[m]}")
            # the shipped parser modules are what `Parser.from_grammar(text).generate()` gives: regenerate them in the COPY
            with open(os.path.join(cdir, outfile), "w", encoding="utf-8") as fd:
                fd.write(md.sources.get("GO", ""))
            mds[key] = md
        os.chdir(tmp)
        sys.path.insert(0, tmp)
        climber = importlib.import_module("examples.calculator.prec_climber")
        pratt = importlib.import_module("examples.calculator.pratt")
        encoded = importlib.import_module("examples.calculator.grammar_encoded_prec")
        pratt_parser = pratt.CalculatorParser()
        impls = {
            "prec_climber": ("calc", lambda pairs: climber.parse_program(pairs)),
            "pratt": ("calc", lambda pairs: pratt_parser.parse_expr(pairs.first().inner().first().stream())),
            "grammar_encoded_prec": ("prec", lambda pairs: encoded.parse_program(pairs)),
        }
        own_entry = {
            "prec_climber": lambda s: climber.parse_program(climber.parse(climber.Rule.PROGRAM, s)),
            "pratt": lambda s: pratt_parser.parse(s),
            "grammar_encoded_prec": lambda s: encoded.parse_program(encoded.parse(encoded.Rule.PROGRAM, s)),
        }
        for i in range(shard["count"]):
            rnd = random.Random(seed_int(shard["seed"], i))
            toks: list[str] = []
            gen_expr(rnd, rnd.choice([0, 1, 2, 3, 5]), toks)
            text = render(toks, rnd)
            acc.count("calc.expressions")
            try:
                want = outcome(lambda: ref_eval(toks))
            except Abstain:
                acc.count("calc.abstain_guard")
                continue
            ops = {t for t in toks if not t.isalnum() and t not in "()"}
            for t in ops:
                acc.count("calc.expressions_with." + {"+": "add", "-": "sub_or_neg", "*": "mul", "/": "div", "^": "pow", "!": "fac"}[t])
            acc.nontrivial("calc", text)
            results = {}
            for impl, (gkey, build) in impls.items():
                for m in ("I", "GI", "O", "GO", "own"):
                    try:
                        if m == "own":
                            ast = own_entry[impl](text)
                        else:
                            o = mds[gkey].get(m)
                            if o is None:
                                continue
                            ast = build(o.parse("program", text))
                    except PestParsingError as e:
                        viol("valid expression rejected by the grammar", impl, m, text, str(e).splitlines()[0])
                        continue
                    except Exception as e:  # noqa: BLE001
                        viol("implementation raised while building its AST", impl, m, text, f"{type(e).__name__}: {e}")
                        continue
                    if not prewalk_ok(ast):
                        acc.count("calc.abstain_guard_impl")
                        continue
                    try:
                        got = outcome(lambda a=ast: a.evaluate(dict(VARS)))
                    except Abstain:
                        continue
                    results[(impl, m)] = got
                    acc.count("calc.evaluations")
                    if got != want:
                        viol("value differs from the reference evaluator", impl, m, text, {"tokens": toks, "expected": want, "observed": got})
            vals = set(results.values())
            if len(vals) == 1 and len(results) >= 12:
                acc.count("calc.three_way_agreements")
            if i == 0:
                acc.sample({"expression": text, "tokens": toks, "reference": want})
    finally:
        os.chdir(old)
        if tmp in sys.path:
            sys.path.remove(tmp)
        shutil.rmtree(tmp, ignore_errors=True)
    return acc.dump()


def main(tier: str, seed: int) -> int:
    run = Run("C17", tier, seed)
    shards = []
    for j in range(16):
        shards.append({"kind": "json", "seed": seed_int("C17", seed, "j", j), "count": run.pick(40, 1200), "prefix_every": run.pick(4, 1), "with_example_program": j == 0, "sweep_part": j})
    run_workers("pv.checks.c17", "json_worker", shards, timeout_s=run.pick(900, 7200), acc=run.acc)
    shards = [{"kind": "calc", "seed": seed_int("C17", seed, "c", j), "count": run.pick(220, 6000)} for j in range(16)]
    run_workers("pv.checks.c17", "calc_worker", shards, timeout_s=run.pick(900, 7200), acc=run.acc)
    run.acc.count("cases", run.acc.c["json.documents"] + run.acc.c["calc.expressions"])
    return run.finish(
        rule=(
            "JSON: seeded RFC 8259 documents (top-level array/object, depth <= 6, all number forms, every escape incl. surrogate pairs, non-ASCII, "
            "white space at every legal place) emitted with the generator's own token tree; json.loads validates the generator; both bundled JSON "
            "grammars x 4 modes must accept, mirror the token tree (member order, raw string slices, float(number)) and reject every proper prefix; "
            "examples/json/json_.py is driven too. Calculators: seeded expressions (ints 0-9, variables, + - * / ^, stacks of unary minus and "
            "factorial, parentheses to depth 5, random white space) x three implementations x {I, GI, O, GO pairs, the implementation's own entry "
            "point}; values or exception types are compared with a recursive-descent reference written from the documented table. "
            "distinct_nontrivial = distinct documents + distinct expressions judged."
        ),
        assumptions=[
            "json.loads is the JSON reference; duplicate keys are compared on the token tree only",
            "calculator guard: abstain when a factorial operand exceeds 1000 or an exponent exceeds 64 (nothing can hang)",
            "the parser modules are regenerated from the current tree into a temporary package copy",
        ],
        evaluations_key="cases",
        floors={
            "json.documents": 300, "json.trees_mirrored": 2000, "json.prefixes_rejected": 20000, "calc.expressions": 1000, "calc.evaluations": 10000,
            "calc.three_way_agreements": 500, "json.example_program_documents": 30,
        },
    )


def replay(path: str) -> int:
    v = load_replay(path)["violation"]
    print(json.dumps(v, indent=1)[:2000])
    print("replay: re-run ./check C17 (the case is regenerated from its seed); witness above")
    print(f"VIOLATION property=C17 replay={path}")
    return 1
