"""C02 - optimizer passes never change what a grammar parses."""

from __future__ import annotations

from pv.checks import _engine_check as E
from pv.common import Run

PROP = "C02"
JUDGES = ["c02"]


def main(tier: str, seed: int) -> int:
    run = Run(PROP, tier, seed)
    np = run.pick(4, 7)
    shards = []
    ov = {"more_builtins": True, "skipuntil": True, "tags": True, "trivia_explicit": True, "trivia_refs": True, "ci_nonascii": True, "zero_counts": True, "skipuntil_ci": True}
    shards += E.random_shards(PROP, run, JUDGES, profile="full", count=run.pick(40, 450), cap=run.pick(100, 250), maxlen=4, extra={"pipelines": np, "extra_alpha": " #", "start_rules": "all", "profile_overrides": {"zero_counts": True, "skipuntil_ci": True, "zero_width_stack_reps": True}})
    shards += E.random_shards(PROP, run, JUDGES, profile="core", count=run.pick(30, 350), cap=run.pick(100, 250), maxlen=4, extra={"pipelines": np, "profile_overrides": ov, "long_inputs": 2})
    shards += E.random_shards(PROP, run, JUDGES, profile="trivia", count=run.pick(30, 350), cap=run.pick(100, 250), maxlen=4, extra={"pipelines": np, "profile_overrides": ov, "extra_alpha": " #", "rename": True, "start_rules": "all"})
    shards += E.matrix_shards(PROP, run, JUDGES, sample=run.pick(1300, 0), cap=run.pick(120, 300), extra={"pipelines": np})
    # optimizer-target family: every shape the passes pattern-match on x ordered operand pairs, under ordered
    # selections of the passes (all 325 on the thorough tier), so each pass also meets every other pass's output
    import random as _random

    from pv.gen import grammars as G

    idx = list(range(G.opt_target_size()))
    _random.Random(E.seed_int(PROP, run.seed, "opt")).shuffle(idx)
    if run.quick:
        idx = idx[:640]
    for j in range(16):
        shards.append({
            "prop": PROP, "judges": JUDGES, "modes": ["I", "GI", "O", "GO"], "source": "opttargets", "indices": idx[j::16], "seed": E.seed_int(PROP, run.seed, "ot", j),
            "cap": run.pick(40, 80), "maxlen": 3, "pipelines": run.pick(24, 60), "pipeline_mode": "ordered", "sample_at": 10**9, "start_rules": "all",
        })
    shards += E.scale_shards(PROP, run, JUDGES, extra={"pipelines": np})
    E.execute(run, shards)
    return run.finish(
        rule=(
            "random grammars (all profiles, biased to the rewrite patterns: every repetition form, (!lits ~ ANY)* in atomic and non-atomic "
            "rules with and without trivia, choices of literals/ranges/CI literals with shared prefixes, silent-rule references incl. tagged and "
            "recursive ones) and the construct matrix; per grammar the default pipeline plus seeded configurations (each single pass, subsets, "
            "permutations, repetitions of DEFAULT_OPTIMIZER_PASSES, fresh Optimizer objects), interpreted and generated, are compared with the "
            "optimizer=None result computed BEFORE any optimizer ran in the worker process. Plus the optimizer-target family (14 shapes: choice, "
            "choice under * + ? {n} and a tag, (!C ~ ANY)* with/without terminator, through silent and normal rule references, !C ~ ANY; C = every "
            "ordered pair of 11 literal-like operands incl. CI literals, ranges, built-ins, silent/normal references and a nested choice; 3 rule "
            "modifiers; with/without WHITESPACE) under seeded ordered selections of the passes (observed_sets lists which). "
            "distinct_nontrivial = distinct (grammar, input) cases."
        ),
        assumptions=[
            "relative property: outcome and tree are compared, failure positions are not (the statement does not ask)",
            "the unoptimized baseline is computed in phase U of each worker, before the first Optimizer.optimize call of the process",
        ],
        evaluations_key="c02.comparisons",
        floors={
            "c02.comparisons": 20000, "c02.pipelines_built": 500, "c02.default_rewrites_fired.unroll": 100, "c02.default_rewrites_fired.squash_choice": 100,
            "c02.default_rewrites_fired.inline built-in": 100, "c02.default_rewrites_fired.inline silent": 50, "c02.default_rewrites_fired.skip": 5,
            "c02.pipeline_kind.multi": 1000,
        },
    )


def replay(path: str) -> int:
    return E.replay(PROP, path, JUDGES)
