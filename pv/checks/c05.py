"""C05 - stack operations match their specification and are undone on backtracking."""

from __future__ import annotations

import random

from pv import engine
from pv.common import Run, run_workers, seed_int
from pv.gen import grammars as G

PROP = "C05"
JUDGES = ["ref", "t1", "c07"]
MODES = ["I", "GI", "O", "GO"]


def shards_for(run: Run) -> list[dict]:
    shards = []
    nrand = run.pick(110, 1200)
    for j in range(16):
        shards.append(
            {
                "prop": PROP, "judges": JUDGES, "modes": MODES, "source": "random", "profile": "stack", "long_inputs": 2 if j % 2 else 0,
                "seed": seed_int(PROP, run.seed, j), "count": nrand, "cap": run.pick(200, 500), "maxlen": run.pick(5, 6),
                "sample_at": 300 * j, "maxdepth": 4,
            }
        )
    for j in range(16):
        shards.append(
            {
                "prop": PROP, "judges": JUDGES, "modes": MODES, "source": "stackscen", "seed": seed_int(PROP, run.seed, "sc", j),
                "count": run.pick(70, 900), "cap": run.pick(260, 600), "maxlen": 5, "sample_at": 10**9,
            }
        )
        shards.append(
            {
                "prop": PROP, "judges": JUDGES, "modes": MODES, "source": "random", "profile": "stack", "profile_overrides": {"push_empty": True, "zero_width_stack_reps": True},
                "seed": seed_int(PROP, run.seed, "pe", j), "count": run.pick(30, 400), "cap": run.pick(200, 500), "maxlen": 5, "sample_at": 10**9,
            }
        )
    dig = list(range(G.stack_dig_size()))
    random.Random(seed_int(PROP, run.seed, "dig")).shuffle(dig)
    if run.quick:
        dig = dig[:1600]
    for j in range(16):
        shards.append({"prop": PROP, "judges": JUDGES, "modes": MODES, "source": "stackdig", "indices": dig[j::16], "seed": seed_int(PROP, run.seed, "dg", j), "cap": 40, "maxlen": 2, "sample_at": 10**9})
    swp = list(range(G.stack_swap_size()))
    random.Random(seed_int(PROP, run.seed, "swap")).shuffle(swp)
    if run.quick:
        swp = swp[:1600]
    for j in range(16):
        shards.append({"prop": PROP, "judges": JUDGES, "modes": MODES, "source": "stackswap", "indices": swp[j::16], "seed": seed_int(PROP, run.seed, "sw", j), "cap": 20, "maxlen": 1, "sample_at": 10**9})
    idx = list(range(G.matrix_size()))
    rnd = random.Random(seed_int(PROP, run.seed, "m"))
    rnd.shuffle(idx)
    if run.quick:
        idx = idx[:6000]
    for j in range(16):
        shards.append(
            {
                "prop": PROP, "judges": JUDGES, "modes": MODES, "source": "matrix", "indices": idx[j::16], "matrix_filter": "stack",
                "seed": seed_int(PROP, run.seed, "mx", j), "cap": run.pick(250, 600), "maxlen": 4, "extra_alpha": "", "sample_at": 10**9,
            }
        )
    return shards


def main(tier: str, seed: int) -> int:
    run = Run(PROP, tier, seed)
    run_workers("pv.engine", "worker", shards_for(run), timeout_s=run.pick(900, 7200), acc=run.acc)
    return run.finish(
        rule=(
            "seeded random grammars mixing PUSH/PUSH_LITERAL/PEEK/POP/DROP/PEEK_ALL/POP_ALL/PEEK[a..b] with choice, optional, every repetition "
            "form and predicates (pushes of 1-2 characters over a 3-letter alphabet so stack entries and input collide often), plus the "
            "stack slice of the construct x context matrix (every stack construct in every backtracking context, incl. empty-stack starts); "
            "4 modes vs the reference evaluator with an immutable stack; online monitor T1 compares every checkpoint/restore of every parse "
            "with a full copy. distinct_nontrivial = distinct (grammar, input) cases judged where the reference matches or input is non-empty."
        ),
        assumptions=[
            "pv/ref/refpeg.py: PEEK/POP/DROP on an empty stack fail; POP leaves the stack unchanged when it fails to match; undo is structural (immutable stack)",
            "abstains on out-of-range PEEK[a..b] bounds",
        ],
        evaluations_key="parses",
        floors={
            "parses": 20000, "ref.comparisons": 20000, "ref.stack.push": 1000, "ref.stack.pop": 500, "ref.stack.pop_on_empty": 50,
            "ref.stack_change_undone_by_failed_alternative": 50, "ref.stack_change_undone_by_failed_optional": 20,
            "ref.stack_change_undone_by_failed_iteration": 20, "ref.stack_change_undone_by_predicate": 20,
            "t1.checkpoints": 10000, "t1.restores_that_changed_user_stack": 50,
        },
    )


def replay(path: str) -> int:
    return engine.replay_violation(PROP, path, JUDGES)
