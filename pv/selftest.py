"""setup_cmd: self-test of the oracles only (builds nothing, needs no network)."""

from __future__ import annotations

import importlib
import sys

TESTS: list[tuple[str, str]] = [
    ("pv.checks.c09", "selftest"),
    ("pv.checks.c14", "selftest"),
    ("pv.checks.c18", "selftest"),
    ("pv.checks.c12", "selftest"),
    ("pv.ref.metafront", "selftest"),
]


def main() -> int:
    import pest  # noqa: F401  (the repository must be importable from the working tree)

    bad = 0
    for mod, fn in TESTS:
        m = importlib.import_module(mod)
        f = getattr(m, fn, None)
        if f is None:
            continue
        try:
            f()
            print(f"selftest ok   {mod}.{fn}")
        except Exception as e:  # noqa: BLE001
            bad += 1
            print(f"selftest FAIL {mod}.{fn}: {type(e).__name__}: {e}")
    print(f"pest imported from {pest.__file__}")
    return 1 if bad else 0


if __name__ == "__main__":
    sys.exit(main())
