"""Shared plumbing: run context, verdicts, evidence, replays, known findings, worker pool.

Verdicts are three-valued (DESIGN.md 3.5):
  held         -> exit 0
  violated     -> `VIOLATION property=<id> replay=<path>` + exit 1
  inconclusive -> `INCONCLUSIVE property=<id> reason=...` + exit 2
"""

from __future__ import annotations

import builtins
import collections
import hashlib
import json
import os
import shutil
import subprocess
import sys
import tempfile
import time
from concurrent.futures import ThreadPoolExecutor

VERIF = os.path.dirname(os.path.dirname(os.path.abspath(__file__)))
REPO = os.environ.get("VERIF_REPO", "/repo")
PYTHON = "/venv/bin/python"
NCPU = max(1, min(16, os.cpu_count() or 1))


def sha(*parts: object) -> str:
    h = hashlib.sha1()
    for p in parts:
        h.update(repr(p).encode("utf-8", "surrogatepass"))
        h.update(b"\0")
    return h.hexdigest()


def digest64(*parts: object) -> int:
    return int(sha(*parts)[:16], 16)


def seed_int(*parts: object) -> int:
    """Deterministic sub-seed (never uses hash())."""
    return int(sha(*parts)[:12], 16)


def jsonable(x):
    if isinstance(x, (str, int, float, bool)) or x is None:
        return x
    if isinstance(x, (list, tuple)):
        return [jsonable(i) for i in x]
    if isinstance(x, dict):
        return {str(k): jsonable(v) for k, v in x.items()}
    if isinstance(x, (set, frozenset)):
        return sorted(jsonable(i) for i in x)
    return repr(x)


# --------------------------------------------------------------------------------------
# Known findings


def load_known_findings() -> dict:
    path = os.path.join(VERIF, "KNOWN_FINDINGS.json")
    if not os.path.exists(path):
        return {"open": [], "fixed": []}
    with open(path, encoding="utf-8") as fd:
        return json.load(fd)


def open_findings(prop: str) -> dict[str, dict]:
    return {
        f["id"]: f for f in load_known_findings().get("open", []) if prop in f["properties"]
    }


# --------------------------------------------------------------------------------------
# Partial results (what a worker returns, and what the parent accumulates)


class Acc:
    """Accumulator of counters, samples, violations, known-finding hits, distinct keys."""

    MAX_SAMPLES = 12
    MAX_VIOLATIONS = 40

    def __init__(self) -> None:
        self.c: collections.Counter[str] = collections.Counter()
        self.mx: dict[str, float] = {}
        self.samples: list = []
        self.violations: list[dict] = []
        self.nviol = 0
        self.known: dict[str, dict] = {}
        self.distinct: set[int] = set()
        self.inconclusive: list[str] = []
        self.sets: dict[str, set] = {}
        # group digest -> number of distinct non-trivial cases inside that group; merged with max(),
        # so identical groups seen by two workers are never counted twice (conservative)
        self.groups: dict[str, int] = {}

    def group_distinct(self, group_key: str, n: int) -> None:
        if n > self.groups.get(group_key, 0):
            self.groups[group_key] = n

    @property
    def n_distinct(self) -> int:
        return len(self.distinct) + sum(self.groups.values())

    def count(self, key: str, n: int = 1) -> None:
        self.c[key] += n

    def maxi(self, key: str, v: float) -> None:
        if v > self.mx.get(key, float("-inf")):
            self.mx[key] = v

    def sample(self, s, force: bool = False) -> None:
        if force or len(self.samples) < self.MAX_SAMPLES:
            self.samples.append(jsonable(s))

    def add_to(self, name: str, item) -> None:
        self.sets.setdefault(name, set()).add(item)

    def nontrivial(self, *key: object) -> None:
        self.distinct.add(digest64(*key))

    def violation(self, kind: str, detail: dict) -> None:
        self.nviol += 1
        if len(self.violations) < self.MAX_VIOLATIONS:
            d = {"kind": kind}
            d.update(jsonable(detail))
            self.violations.append(d)

    def known_hit(self, fid: str, example) -> None:
        k = self.known.setdefault(fid, {"count": 0, "example": jsonable(example)})
        k["count"] += 1

    def dump(self) -> dict:
        return {
            "c": dict(self.c),
            "mx": self.mx,
            "samples": self.samples,
            "violations": self.violations,
            "nviol": self.nviol,
            "known": self.known,
            "distinct": sorted(self.distinct),
            "inconclusive": self.inconclusive,
            "groups": self.groups,
            "sets": {k: sorted(jsonable(i) for i in v) for k, v in self.sets.items()},
        }

    def merge(self, d: dict) -> None:
        self.c.update(d.get("c", {}))
        for k, v in d.get("mx", {}).items():
            self.maxi(k, v)
        for s in d.get("samples", []):
            if len(self.samples) < self.MAX_SAMPLES:
                self.samples.append(s)
        for v in d.get("violations", []):
            if len(self.violations) < self.MAX_VIOLATIONS:
                self.violations.append(v)
        self.nviol += d.get("nviol", 0)
        for fid, k in d.get("known", {}).items():
            cur = self.known.setdefault(fid, {"count": 0, "example": k["example"]})
            cur["count"] += k["count"]
        self.distinct.update(d.get("distinct", []))
        self.inconclusive.extend(d.get("inconclusive", []))
        for g, n in d.get("groups", {}).items():
            self.group_distinct(g, n)
        for k, v in d.get("sets", {}).items():
            s = self.sets.setdefault(k, set())
            for i in v:
                s.add(tuple(i) if isinstance(i, list) else i)


# --------------------------------------------------------------------------------------
# Worker pool: subprocess per shard, hard watchdog (a fired watchdog is inconclusive)


def run_workers(
    module: str,
    func: str,
    shards: list[dict],
    *,
    timeout_s: float,
    acc: Acc,
    par: int | None = None,
    env_extra: dict[str, str] | None = None,
) -> None:
    """Run `module.func(shard_dict) -> Acc.dump()` in one subprocess per shard."""
    par = par or NCPU
    tmp = tempfile.mkdtemp(prefix="pv-work-")
    env = dict(os.environ)
    env["PYTHONHASHSEED"] = "0"
    if env_extra:
        env.update(env_extra)

    def one(i: int) -> tuple[int, dict | None, str]:
        inp = os.path.join(tmp, f"in{i}.json")
        out = os.path.join(tmp, f"out{i}.json")
        with open(inp, "w", encoding="utf-8") as fd:
            json.dump(shards[i], fd)
        try:
            p = subprocess.run(
                [PYTHON, "-B", "-m", "pv.worker", module, func, inp, out],
                cwd=VERIF,
                env=env,
                capture_output=True,
                text=True,
                timeout=timeout_s,
                check=False,
            )
        except subprocess.TimeoutExpired:
            return i, None, f"worker {module}.{func}[{i}] watchdog after {timeout_s}s"
        if p.returncode != 0 or not os.path.exists(out):
            tail = (p.stderr or "")[-1500:]
            return i, None, f"worker {module}.{func}[{i}] exit {p.returncode}: {tail}"
        with open(out, encoding="utf-8") as fd:
            return i, json.load(fd), ""

    try:
        with ThreadPoolExecutor(max_workers=par) as ex:
            for _i, res, err in ex.map(one, range(len(shards))):
                if res is None:
                    acc.inconclusive.append(err)
                else:
                    acc.merge(res)
    finally:
        shutil.rmtree(tmp, ignore_errors=True)


# --------------------------------------------------------------------------------------
# Run context of one check invocation


class Run:
    def __init__(self, prop: str, tier: str, seed: int, level: str = "exploration"):
        self.prop = prop
        self.tier = tier
        self.seed = seed
        self.level = level
        self.acc = Acc()
        self.t0 = time.time()
        self.notes: list[str] = []
        self.findings = open_findings(prop)

    @property
    def quick(self) -> bool:
        return self.tier == "quick"

    def pick(self, quick, thorough):
        return quick if self.tier == "quick" else thorough

    def finish(
        self,
        *,
        rule: str,
        assumptions: list[str],
        evaluations_key: str,
        floors: dict[str, int] | None = None,
        extra: dict | None = None,
        exhaustive: bool | None = None,
    ) -> int:
        acc = self.acc
        wall = time.time() - self.t0
        for key, floor in (floors or {}).items():
            if acc.c.get(key, 0) < floor:
                acc.inconclusive.append(
                    f"monitor counter {key}={acc.c.get(key, 0)} below floor {floor}"
                )
        # known findings: only ids listed for this property may be hit
        unknown = [fid for fid in acc.known if fid not in self.findings]
        for fid in unknown:
            k = acc.known.pop(fid)
            acc.violation("unlisted-finding", {"finding": fid, "example": k["example"]})

        replay_paths: list[str] = []
        if acc.violations:
            rdir = os.path.join(os.environ.get("VERIF_REPLAY_DIR") or os.path.join(VERIF, "replays"), self.prop)
            os.makedirs(rdir, exist_ok=True)
            for v in acc.violations:
                body = {
                    "property": self.prop,
                    "tier": self.tier,
                    "seed": self.seed,
                    "repo": REPO,
                    "violation": v,
                }
                name = sha(json.dumps(body, sort_keys=True))[:16] + ".json"
                path = os.path.join(rdir, name)
                with open(path, "w", encoding="utf-8") as fd:
                    json.dump(body, fd, indent=1, ensure_ascii=True)
                replay_paths.append(path)

        coverage: dict = {
            "evaluations": int(acc.c.get(evaluations_key, 0)),
            "distinct_nontrivial": acc.n_distinct,
            "rule": rule,
            "samples": acc.samples or ["<no sample recorded>"],
            "counters": dict(sorted(acc.c.items())),
            "maxima": acc.mx,
            "known_findings_hit": {
                fid: {"count": k["count"], "example": k["example"]}
                for fid, k in sorted(acc.known.items())
            },
            "observed_sets": {
                k: (sorted(jsonable(i) for i in v)[:60]) for k, v in sorted(acc.sets.items()) if not k.startswith("_")
            },
            "observed_set_sizes": {k: len(v) for k, v in sorted(acc.sets.items()) if not k.startswith("_")},
            "inconclusive_reasons": acc.inconclusive[:20],
        }
        if exhaustive is not None:
            coverage["exhaustive"] = exhaustive
        if extra:
            coverage.update(jsonable(extra))
        verdict = (
            "violated" if acc.nviol else ("inconclusive" if acc.inconclusive else "held")
        )
        coverage["verdict"] = verdict
        ev = {
            "property_id": self.prop,
            "tier": self.tier,
            "seed": self.seed,
            "level": self.level,
            "coverage": coverage,
            "assumptions": assumptions,
            "wall_s": round(wall, 2),
            "violations": acc.nviol,
        }
        # development runs against scratch trees (pv.seedtest) must not overwrite the committed evidence
        evdir = os.environ.get("VERIF_EVIDENCE_DIR") or os.path.join(VERIF, "evidence")
        os.makedirs(evdir, exist_ok=True)
        with open(os.path.join(evdir, f"{self.prop}.json"), "w", encoding="utf-8") as fd:
            json.dump(ev, fd, indent=1, ensure_ascii=True)
            fd.write("\n")

        # ---- report (a reader that closes the pipe early must not change the exit code)
        def print(*args):  # noqa: A001
            try:
                builtins.print(*args)
            except BrokenPipeError:
                sys.stdout = open(os.devnull, "w", encoding="utf-8")  # noqa: SIM115

        print(
            f"[{self.prop}] tier={self.tier} seed={self.seed} verdict={verdict} "
            f"evaluations={coverage['evaluations']} distinct_nontrivial={acc.n_distinct} "
            f"wall={wall:.1f}s"
        )
        for k, v in sorted(acc.c.items()):
            print(f"    {k} = {v}")
        for fid, k in sorted(acc.known.items()):
            f = self.findings[fid]
            print(
                f"KNOWN-FINDING: property={self.prop} {fid} {f['what']} "
                f"(hit {k['count']}x, e.g. {json.dumps(k['example'], ensure_ascii=True)[:300]})"
            )
        if acc.nviol:
            for v, path in zip(acc.violations, replay_paths):
                print(f"VIOLATION property={self.prop} replay={path}")
                print("    " + brief_violation(v))
            if acc.nviol > len(acc.violations):
                print(f"    (+{acc.nviol - len(acc.violations)} more violations not written)")
            return 1
        if acc.inconclusive:
            for r in acc.inconclusive[:10]:
                print(f"INCONCLUSIVE property={self.prop} reason={r[:160]} ... {r[-500:] if len(r) > 160 else ''}")
            return 2
        return 0


def brief_violation(v: dict) -> str:
    keys = [k for k in v if k not in ("rules", "kind")]
    parts = []
    for k in keys:
        x = json.dumps(v[k], ensure_ascii=True)
        parts.append(f"{k}={x[:400]}")
    return " ".join(parts)[:1500]


def load_replay(path: str) -> dict:
    with open(path, encoding="utf-8") as fd:
        return json.load(fd)


def main_guard() -> None:
    sys.setrecursionlimit(max(sys.getrecursionlimit(), 5000))
