"""python3-vt -m pv.validate : validates MANIFEST.json and evidence/*.json against the schemas (development aid)."""
import glob, json, sys
import jsonschema

def main():
    bad = 0
    ms = json.load(open("/root/.vp/MANIFEST.schema.json")); es = json.load(open("/root/.vp/EVIDENCE.schema.json"))
    try:
        jsonschema.validate(json.load(open("/verif/MANIFEST.json")), ms); print("MANIFEST ok")
    except Exception as e:
        bad += 1; print("MANIFEST INVALID", str(e)[:500])
    for f in sorted(glob.glob("/verif/evidence/*.json")):
        try:
            jsonschema.validate(json.load(open(f)), es); print("ok", f)
        except Exception as e:
            bad += 1; print("INVALID", f, str(e)[:500])
    return bad
if __name__ == "__main__":
    sys.exit(main())
