"""Corpus of the bundled real-world grammars.

 * static part: the .pest files and example documents shipped in the repository
 * harvested part: the repository's own test-suite is run ONCE in a temporary copy (tests +
   examples only; tests/test_calculator_examples.py rewrites examples/calculator/*parser.py
   at import time and a check must never write into /repo) with pv.harvest_plugin recording
   every (grammar, rule, input) triple the maintainers thought worth testing.
"""

from __future__ import annotations

import glob
import json
import os
import shutil
import subprocess
import tempfile

from pv.common import PYTHON, REPO, VERIF, sha

# grammar key -> (path relative to repo, [(rule, corpus file, split mode)], seed inputs)
BUNDLED: dict[str, dict] = {
    "json_tests": {"path": "tests/grammars/json.pest", "files": [("json", "tests/examples/example.json", "whole"), ("json", "examples/json/example.json", "whole")]},
    "json_example": {"path": "examples/json/json.pest", "files": [("json", "examples/json/example.json", "whole"), ("json", "tests/examples/example.json", "whole")]},
    "toml": {"path": "tests/grammars/toml.pest", "files": [("toml", "tests/examples/example.toml", "whole"), ("toml", "tests/examples/example.toml", "paragraphs")]},
    "sql": {"path": "tests/grammars/sql.pest", "files": []},
    "http": {"path": "tests/grammars/http.pest", "files": [("http", "tests/examples/example.http", "whole"), ("http", "benchmarks/requests.http", "head")]},
    "lists": {"path": "tests/grammars/lists.pest", "files": []},
    "jsonpath": {"path": "examples/jsonpath/jsonpath.pest", "files": []},
    "calculator": {"path": "examples/calculator/calculator.pest", "files": []},
    "calculator_prec": {"path": "examples/calculator/grammar_encoded_prec.pest", "files": []},
    "ini": {"path": "examples/ini/ini.pest", "files": [("file", "examples/ini/example.ini", "whole")]},
    "csv": {"path": "examples/csv/csv.pest", "files": [("file", "examples/csv/example.csv", "whole")]},
    "surround": {"path": "tests/grammars/surround.pest", "files": []},
    "reporting": {"path": "tests/grammars/reporting.pest", "files": []},
    "grammar": {"path": "tests/grammars/grammar.pest", "files": []},
}

SEED_INPUTS: dict[str, list[tuple[str, str]]] = {
    "sql": [
        ("Command", "select a, b from t where a = 1 and b <> 'x'"),
        ("Command", "insert into t (a, b) values (1, 'two')"),
        ("Command", "select * from t1 inner join t2 on t1.a = t2.b order by a desc limit 10"),
        ("Command", "delete from t where a in (1, 2, 3)"),
        ("Command", "create table t (a int primary key, b text)"),
        ("Command", "update t set a = a + 1 where b is null"),
        ("Command", "select distinct a as x, count(*) from t group by a having count(*) > 1"),
        ("Command", "select a from t where a between 1 and 2 or not (b like 'x%') union all select b from u"),
        ("Command", "select cast(a as text), \"quoted id\" from \"T\" where a >= 1.5e3 and b != -2"),
        ("Command", "drop table if exists t"),
        ("Command", "create index i on t (a, b)"),
        ("Command", "select a from (select b as a from t) as s left join u on s.a = u.a where exists (select 1 from v)"),
        ("Command", "explain select * from t"),
        ("Command", "insert into t values (1, 2), (3, 4) on conflict do nothing"),
        ("Command", "select case when a > 1 then 'x' else 'y' end from t"),
    ],
    "jsonpath": [
        ("jsonpath", "$.store.book[*].author"), ("jsonpath", "$..book[?(@.price < 10)]"), ("jsonpath", "$['a','b'][0:2]"),
        ("jsonpath", "$[?@.a == 'x' && @.b > 1 || !@.c]"), ("jsonpath", "$[?length(@.a) >= 2]"), ("jsonpath", "$..*"), ("jsonpath", "$[-1:]"),
        ("jsonpath", "$"), ("jsonpath", "$.a.b.c"), ("jsonpath", "$[0][1]['x']"), ("jsonpath", "$[1:10:2]"), ("jsonpath", "$[::-1]"), ("jsonpath", "$..['a','b']"),
        ("jsonpath", '$["\\u00e9", "q\\"r"]'), ("jsonpath", "$[?match(@.a, 'x.*') && count(@.*) == 1.5e1]"), ("jsonpath", "$[?(@.a || @.b) && !(@.c < -1)]"),
        ("jsonpath", "$[?@ == null || @ == true || @ == false]"), ("jsonpath", "$[?$.x[0] != @['y']]"), ("jsonpath", "$ .a [ 0 ] "),
    ],
    "calculator": [("program", "1 + 2 * 3"), ("program", "-x! ^ 2 - (3 / y)"), ("program", "5!"), ("program", "2 ^ 3 ^ 2"), ("program", " 1\t+\n2 ")],
    "calculator_prec": [("program", "1 + 2 * 3"), ("program", "-x! ^ 2 - (3 / y)"), ("program", "5!"), ("program", "2 ^ 3 ^ 2")],
    "lists": [("lists", "- a\n- b\n  - c\n  - d\n- e"), ("lists", "- a"), ("lists", "- a\n  - b\n    - c\n- d"), ("lists", "- a\n  - b\n  - c\n    - d\n  - e\n- f\n  - g"), ("lists", "- a\n    - too deep"), ("lists", "- a\n- b\n")],
    "csv": [("file", "1,2,3\n4,5,6\n"), ("file", "-1.5,2\n")],
    "surround": [("Quote", "(a)"), ("Quote", "<b>"), ("Quote", "(a>"), ("Quote", "((x))"), ("Quote", "<>"), ("Quote", "(")],
    "ini": [("file", "[s]\na=1\nb=two\n\n[t]\nc=3\n"), ("file", "k=v\n")],
    "http": [("http", "GET /index.html HTTP/1.1\r\nHost: example.com\r\n\r\n"), ("http", "POST /a/b?c=d HTTP/1.0\r\nA: b\r\nC-D: e f\r\n\r\n"), ("http", "GET / HTTP/1.1\r\n\r\n"), ("http", "GET / HTTP/1.1\nHost: x\n\n")],
    "json_tests": [("json", '{"a": [1, 2.5e3, -0.1, true, false, null, "x\\n\\u00e9"], "b": {}}'), ("json", "[]"), ("json", "[[[]]]")],
    "json_example": [("json", '{"a": [1, 2.5e3, -0.1, true, false, null, "x\\n\\u00e9"], "b": {}}'), ("json", "[]"), ("json", "[[[]]]")],
    "toml": [("toml", 'a = 1\nb = "two"\n[t]\nc = [1, 2]\nd = { x = 1 }\n'), ("toml", "# comment only\n"), ("toml", 'k = """multi\nline"""\n'),
             ("toml", "[[arr]]\nx = 1979-05-27T07:32:00Z\ny = 1e6\nz = -0.5\n[[arr]]\nw = 0x1F\n"), ("toml", "a.b.c = true\n\"q k\" = 'lit'\n"), ("toml", "x = [ [1, 2], ['a', \"b\"] ] # c\n")],
}


def repo_file(rel: str) -> str | None:
    p = os.path.join(REPO, rel)
    if not os.path.exists(p):
        return None
    with open(p, encoding="utf-8", newline="") as fd:
        return fd.read()


def harvest_tests(timeout: int = 300) -> dict:
    """Run the repository's suite in a temp copy under the recording plugin. Never raises."""
    tmp = tempfile.mkdtemp(prefix="pv-harvest-")
    try:
        for d in ("tests", "examples"):
            src = os.path.join(REPO, d)
            if os.path.isdir(src):
                shutil.copytree(src, os.path.join(tmp, d), ignore=shutil.ignore_patterns("__pycache__", "*.pyc", "cts"))
        out = os.path.join(tmp, "harvest.json")
        env = dict(os.environ)
        env["PV_HARVEST_OUT"] = out
        env["PYTHONPATH"] = os.path.join(REPO, "src") + os.pathsep + VERIF
        env["PYTHONDONTWRITEBYTECODE"] = "1"
        try:
            subprocess.run(
                [PYTHON, "-B", "-m", "pytest", "-q", "-x", "-p", "pv.harvest_plugin", "-p", "no:cacheprovider", "--continue-on-collection-errors",
                 "--ignore=tests/test_jsonpath_example_compliance.py", "tests"],
                cwd=tmp, env=env, capture_output=True, text=True, timeout=timeout, check=False,
            )
        except subprocess.TimeoutExpired:
            return {"grammars": {}, "records": [], "note": "harvest timed out"}
        if not os.path.exists(out):
            return {"grammars": {}, "records": [], "note": "harvest produced nothing"}
        with open(out, encoding="utf-8") as fd:
            return json.load(fd)
    except Exception as e:  # noqa: BLE001
        return {"grammars": {}, "records": [], "note": f"harvest failed: {type(e).__name__}: {e}"}
    finally:
        shutil.rmtree(tmp, ignore_errors=True)


def split_corpus(text: str, mode: str) -> list[str]:
    if mode == "whole":
        return [text]
    if mode == "paragraphs":
        return [p + "\n" for p in text.split("\n\n") if p.strip()][:40]
    if mode == "head":
        return [text[:3000]]
    return [text]


def build_corpus(with_harvest: bool = True) -> dict:
    """-> {"grammars": {key: {"text":..., "path":..., "cases": [[rule, input], ...]}}, "notes": [...]}"""
    out: dict = {"grammars": {}, "notes": []}
    by_text: dict[str, str] = {}
    for key, spec in BUNDLED.items():
        text = repo_file(spec["path"])
        if text is None:
            out["notes"].append(f"missing {spec['path']}")
            continue
        cases: list[list[str]] = []
        for rule, rel, mode in spec["files"]:
            doc = repo_file(rel)
            if doc is not None:
                for part in split_corpus(doc, mode):
                    cases.append([rule, part])
        for rule, inp in SEED_INPUTS.get(key, []):
            cases.append([rule, inp])
        out["grammars"][key] = {"text": text, "path": spec["path"], "cases": cases}
        by_text[sha(text)] = key
    if with_harvest:
        h = harvest_tests()
        if h.get("note"):
            out["notes"].append(h["note"])
        nh = 0
        for gid, rule, inp, _start in h.get("records", []):
            gtext = h["grammars"].get(gid)
            if gtext is None:
                continue
            key = by_text.get(sha(gtext))
            if key is None:
                key = "harvested_" + gid
                if key not in out["grammars"]:
                    out["grammars"][key] = {"text": gtext, "path": "(inline grammar in the test-suite)", "cases": []}
                    by_text[sha(gtext)] = key
            c = [rule, inp]
            if c not in out["grammars"][key]["cases"]:
                out["grammars"][key]["cases"].append(c)
                nh += 1
        out["harvested_cases"] = nh
    return out
