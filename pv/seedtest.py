"""Development aid (not a registered check): evaluate a seeded change against the checks.

  /venv/bin/python -m pv.seedtest <dir with patch.diff, demo.py, meta.json> [--checks C01,C05] [--tier quick]

 1. makes a scratch git worktree of /repo (HEAD) outside /repo and /verif and applies patch.diff
 2. confirms the change: repository suite (678 passed, 1 error) and demo.py (fails with / passes without)
 3. runs the selected checks with VERIF_REPO=<scratch> and reports which fire
 4. removes the worktree
"""

from __future__ import annotations

import argparse
import json
import os
import re
import shutil
import subprocess
import sys
import tempfile
import time

PY = "/venv/bin/python"
ALL = [f"C{i:02d}" for i in range(1, 19)]


def sh(cmd, cwd=None, env=None, timeout=3600):
    p = subprocess.run(cmd, cwd=cwd, env=env, capture_output=True, text=True, timeout=timeout, check=False)
    return p.returncode, p.stdout + p.stderr


def main() -> int:
    ap = argparse.ArgumentParser()
    ap.add_argument("dir")
    ap.add_argument("--checks", default="")
    ap.add_argument("--tier", default="quick")
    ap.add_argument("--seed", default="0")
    ap.add_argument("--skip-confirm", action="store_true")
    a = ap.parse_args()
    d = os.path.abspath(a.dir)
    meta = {}
    if os.path.exists(os.path.join(d, "meta.json")):
        with open(os.path.join(d, "meta.json"), encoding="utf-8") as fd:
            meta = json.load(fd)
    prop = meta.get("property", "")
    checks = [c for c in a.checks.split(",") if c] or ([prop] if prop else ALL)
    base = tempfile.mkdtemp(prefix="pv-seed-")
    wt = os.path.join(base, "wt")
    report: dict = {"dir": d, "property": prop, "checks": {}}
    try:
        rc, out = sh(["git", "-C", "/repo", "worktree", "add", "-q", "--detach", wt, "HEAD"])
        if rc:
            print("cannot create worktree:", out)
            return 2
        env = dict(os.environ)
        env["PYTHONPATH"] = os.path.join(wt, "src")
        env["PYTHONDONTWRITEBYTECODE"] = "1"
        if not a.skip_confirm:
            rc0, out0 = sh([PY, "-B", os.path.join(d, "demo.py")], cwd=wt, env=env, timeout=600)
            report["demo_without_change"] = rc0
        rc, out = sh(["git", "-C", wt, "apply", os.path.join(d, "patch.diff")])
        if rc:
            print("patch does not apply:", out)
            report["applies"] = False
            print(json.dumps(report, indent=1))
            return 2
        report["applies"] = True
        if not a.skip_confirm:
            rc1, out1 = sh([PY, "-B", os.path.join(d, "demo.py")], cwd=wt, env=env, timeout=600)
            report["demo_with_change"] = rc1
            report["demo_output_with_change"] = out1[-600:]
            # the suite rewrites generated example parsers; run it in a throw-away copy of the worktree
            cp = os.path.join(base, "suite")
            shutil.copytree(wt, cp, ignore=shutil.ignore_patterns(".git", "__pycache__"))
            env2 = dict(env)
            env2["PYTHONPATH"] = os.path.join(cp, "src")
            rc2, out2 = sh([PY, "-B", "-m", "pytest", "-q", "-p", "no:cacheprovider", "--continue-on-collection-errors"], cwd=cp, env=env2, timeout=1200)
            m = re.search(r"(\d+) passed(?:, (\d+) error)?", out2)
            report["suite"] = m.group(0) if m else out2[-200:]
            report["suite_ok"] = bool(m and m.group(1) == "678" and "failed" not in out2.splitlines()[-1])
            shutil.rmtree(cp, ignore_errors=True)
        for c in checks:
            env3 = dict(os.environ)
            env3["VERIF_REPO"] = wt
            env3["VERIF_SEED"] = a.seed
            env3["VERIF_EVIDENCE_DIR"] = os.path.join(base, "evidence")
            env3["VERIF_REPLAY_DIR"] = os.path.join(base, "replays")
            t0 = time.time()
            rc, out = sh(["/verif/check", c, "--tier", a.tier], cwd="/verif", env=env3, timeout=7200)
            viol = [ln for ln in out.splitlines() if ln.startswith("VIOLATION")]
            first = ""
            lines = out.splitlines()
            for i, ln in enumerate(lines):
                if ln.startswith("VIOLATION") and i + 1 < len(lines):
                    first = lines[i + 1].strip()[:400]
                    break
            report["checks"][c] = {"exit": rc, "violations": len(viol), "wall_s": round(time.time() - t0, 1), "first": first}
            print(f"  {c}: exit={rc} violations={len(viol)} {first[:200]}", flush=True)
    finally:
        sh(["git", "-C", "/repo", "worktree", "remove", "--force", wt])
        shutil.rmtree(base, ignore_errors=True)
        sh(["git", "-C", "/repo", "worktree", "prune"])
    print(json.dumps(report, indent=1))
    return 0


if __name__ == "__main__":
    sys.exit(main())
