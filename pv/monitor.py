"""Runtime monitors hooked into the parser state (DESIGN.md 3.3).

`install()` swaps `pest.parser.ParserState` for `MonitoredState`; generated modules get the
same class through `attach(module)` (they look `ParserState` up in their globals at call
time).  Nothing in the repository is edited.

 * step counter (checkpoints + rule entries) with a per-parse budget -> BudgetExceeded
   (C07's "terminates", restated as bounded progress in logical steps)
 * T1: shadow full copies at checkpoint(); at restore() the real state must equal the popped
   copy, at ok() nothing visible may change (C09 third clause on parse-driven histories)
 * T4: every fail() position must lie in [start_pos, len(input)]
"""

from __future__ import annotations

import collections

from pest.stack import Stack
from pest.state import ParserState


class BudgetExceeded(Exception):
    pass


class MonitorViolation(Exception):
    def __init__(self, what: str, detail: dict):
        super().__init__(what)
        self.what = what
        self.detail = detail


CFG = {"budget": 10_000_000, "t1": False, "t4": False}
STATS: collections.Counter[str] = collections.Counter()
LAST = {"steps": 0}


class CountingStack(Stack):
    """rule stack that counts rule entries into the owning state's step counter."""

    def __init__(self, owner: "MonitoredState") -> None:
        super().__init__()
        self._owner = owner

    def push(self, item) -> None:
        o = self._owner
        o._pv_steps += 1
        if o._pv_steps > CFG["budget"]:
            raise BudgetExceeded(f"more than {CFG['budget']} steps")
        super().push(item)


class MonitoredState(ParserState):
    __slots__ = ("_pv_steps", "_pv_shadow", "_pv_start")

    def __init__(self, text, start_pos=0, parser=None):
        super().__init__(text, start_pos, parser)
        LAST["state"] = self
        self._pv_steps = 0
        self._pv_shadow = []
        self._pv_start = start_pos
        self.rule_stack = CountingStack(self)

    def _visible(self):
        return (
            self.pos,
            tuple(self.user_stack),
            tuple(f.name for f in self.rule_stack),
            int(self.atomic_depth),
        )

    def checkpoint(self) -> None:
        self._pv_steps += 1
        if self._pv_steps > CFG["budget"]:
            raise BudgetExceeded(f"more than {CFG['budget']} steps")
        if CFG["t1"]:
            self._pv_shadow.append(self._visible())
            STATS["t1.checkpoints"] += 1
            if len(self._pv_shadow) > STATS["t1.max_depth"]:
                STATS["t1.max_depth"] = len(self._pv_shadow)
        super().checkpoint()

    def ok(self) -> None:
        if CFG["t1"]:
            before = self._visible()
            super().ok()
            after = self._visible()
            self._pv_shadow.pop()
            STATS["t1.oks"] += 1
            if before != after:
                raise MonitorViolation("ok() changed the visible state", {"before": before, "after": after})
            return
        super().ok()

    def restore(self) -> None:
        if CFG["t1"]:
            before = self._visible()
            super().restore()
            after = self._visible()
            want = self._pv_shadow.pop()
            STATS["t1.restores"] += 1
            if before[1] != want[1]:
                STATS["t1.restores_that_changed_user_stack"] += 1
                if len(before[1]) < len(want[1]) or before[1][: len(want[1])] != want[1]:
                    STATS["t1.restores_that_recovered_popped_entries"] += 1
            if after != want:
                raise MonitorViolation(
                    "restore() did not return to the state at the matching checkpoint",
                    {"at_checkpoint": want, "before_restore": before, "after_restore": after},
                )
            return
        super().restore()

    def fail(self, label, *, pos=None, rule_name=None, force=False):
        if CFG["t4"]:
            p = pos or self.pos
            STATS["t4.fail_calls"] += 1
            if not (self._pv_start <= p <= len(self.input)):
                raise MonitorViolation("fail() recorded a position outside [start_pos, len]", {"pos": p, "start": self._pv_start, "len": len(self.input)})
        super().fail(label, pos=pos, rule_name=rule_name, force=force)


_installed = False


def install() -> None:
    global _installed  # noqa: PLW0603
    if _installed:
        return
    import pest.parser as pp

    pp.ParserState = MonitoredState
    _installed = True


def attach(module) -> None:
    module.ParserState = MonitoredState


def set_budget(n: int) -> None:
    CFG["budget"] = n


def last_steps() -> int:
    """Logical steps (checkpoints + rule entries) of the most recent parse in this thread of control."""
    st = LAST.get("state")
    return st._pv_steps if st is not None else 0
