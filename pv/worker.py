"""Subprocess worker: python -m pv.worker <module> <func> <in.json> <out.json>."""

from __future__ import annotations

import importlib
import json
import resource
import sys

# No honest shard needs more than a few hundred MB.  A runaway (of the code under test or of a generator of mine) must
# end as a MemoryError / dead worker = INCONCLUSIVE for that shard, not take the machine down with all other workers.
ADDRESS_SPACE_LIMIT = 4 << 30


def main() -> int:
    module, func, inp, out = sys.argv[1:5]
    sys.setrecursionlimit(20000)
    try:
        resource.setrlimit(resource.RLIMIT_AS, (ADDRESS_SPACE_LIMIT, ADDRESS_SPACE_LIMIT))
    except (ValueError, OSError):
        pass
    with open(inp, encoding="utf-8") as fd:
        shard = json.load(fd)
    mod = importlib.import_module(module)
    res = getattr(mod, func)(shard)
    with open(out, "w", encoding="utf-8") as fd:
        json.dump(res, fd)
    return 0


if __name__ == "__main__":
    sys.exit(main())
