"""Subprocess worker: python -m pv.worker <module> <func> <in.json> <out.json>."""

from __future__ import annotations

import importlib
import json
import sys


def main() -> int:
    module, func, inp, out = sys.argv[1:5]
    sys.setrecursionlimit(20000)
    with open(inp, encoding="utf-8") as fd:
        shard = json.load(fd)
    mod = importlib.import_module(module)
    res = getattr(mod, func)(shard)
    with open(out, "w", encoding="utf-8") as fd:
        json.dump(res, fd)
    return 0


if __name__ == "__main__":
    sys.exit(main())
