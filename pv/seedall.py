"""Development aid: re-run every kept seeded change against the checks that are supposed to catch it.

  /venv/bin/python -m pv.seedall [--jobs 2] [--only C02-D,C15-C] [--seed 0]

Each seeded/<name>/ is re-confirmed on the current /repo HEAD (patch applies, suite green, demo fails with /
passes without the change) and the checks named in its meta.json (property + caught_by) are run with
VERIF_REPO=<scratch worktree>.  meta.json is refreshed; a summary goes to stdout.
"""
from __future__ import annotations

import argparse
import json
import os
import subprocess
import sys
from concurrent.futures import ThreadPoolExecutor

SEEDED = "/verif/seeded"


def one(name: str, seed: str) -> tuple[str, dict]:
    d = os.path.join(SEEDED, name)
    meta = json.load(open(os.path.join(d, "meta.json"), encoding="utf-8"))
    checks = sorted(set(meta.get("caught_by") or []) | ({meta["property"]} if meta.get("property", "").startswith("C") else set()))
    env = dict(os.environ, PYTHONPATH="/verif", VERIF_SEED=seed)
    p = subprocess.run(["/venv/bin/python", "-m", "pv.seedkeep", d, "--name", name, "--checks", ",".join(checks)], cwd="/verif", env=env, capture_output=True, text=True, check=False)
    out = p.stdout
    try:
        rep = json.loads(out[out.index("{\n \"name\"") : out.index("\n}\n") + 3])
    except ValueError:
        rep = {"error": (out + p.stderr)[-500:]}
    rep["rc"] = p.returncode
    return name, rep


def main() -> int:
    ap = argparse.ArgumentParser()
    ap.add_argument("--jobs", type=int, default=2)
    ap.add_argument("--only", default="")
    ap.add_argument("--seed", default="0")
    a = ap.parse_args()
    names = sorted(n for n in os.listdir(SEEDED) if os.path.exists(os.path.join(SEEDED, n, "meta.json")))
    if a.only:
        names = [n for n in names if n in a.only.split(",")]
    bad = 0
    with ThreadPoolExecutor(a.jobs) as ex:
        for name, rep in ex.map(lambda n: one(n, a.seed), names):
            own = name.split("-")[0]
            caught = rep.get("caught_by", [])
            status = "ok" if rep.get("confirmed") and caught else "MISSED" if rep.get("confirmed") else "UNCONFIRMED"
            if status != "ok":
                bad += 1
            print(f"{name:8s} {status:11s} caught_by={caught} own_check={'yes' if own in caught else 'no'} checks={rep.get('checks')} {rep.get('error', '')}", flush=True)
    print(f"done: {len(names)} seeded changes, {bad} need attention")
    return 1 if bad else 0


if __name__ == "__main__":
    sys.exit(main())
