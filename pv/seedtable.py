"""Development aid: markdown table of /verif/seeded/*/meta.json (pasted into DESIGN.md 10.6)."""
import glob, json, os
print("| seeded change | what was changed | what it needs to manifest | caught by (quick tier) |")
print("|---|---|---|---|")
for d in sorted(glob.glob("/verif/seeded/*")):
    m = json.load(open(os.path.join(d, "meta.json")))
    def clean(s, n):
        s = " ".join(str(s).split()).replace("|", "/")
        return s[:n] + ("..." if len(s) > n else "")
    caught = ", ".join(m.get("caught_by") or []) or "-"
    if m.get("note"):
        caught += " (" + clean(m["note"], 200) + ")"
    if m.get("status"):
        caught += " (" + clean(m["status"], 120) + ")"
    print(f"| {os.path.basename(d)} | {clean(m.get('summary',''), 230)} | {clean(m.get('needs_to_manifest',''), 200)} | {caught} |")
