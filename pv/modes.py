"""Mode harness: one grammar text -> interpreter / optimized interpreter / generated modules.

Modes:  I  = Parser.from_grammar(g, optimizer=None)      interpreted
        O  = Parser.from_grammar(g)  (default optimizer)  interpreted
        GI = exec(I.generate())     GO = exec(O.generate())
Arbitrary Optimizer(passes) pipelines are supported through `optimizer=` objects.

Results are normalised to
    ("ok",   tree)                      tree = tuple of (name, start, end, tag, children)
    ("fail", furthest_pos, expected_rule_names, unexpected_rule_names)
    ("exc",  exception type name, message)
"""

from __future__ import annotations

import itertools
import types

_counter = itertools.count()


def load_generated(source: str, name: str | None = None):
    name = name or f"pvgen_{next(_counter)}"
    mod = types.ModuleType(name)
    mod.__dict__["__name__"] = name  # not "__main__": the CLI block must not run
    exec(compile(source, f"<{name}>", "exec"), mod.__dict__)  # noqa: S102
    return mod


def conv_pair(p):
    return (p.name, p.start, p.end, p.tag, tuple(conv_pair(c) for c in p.children))


def conv_pairs(pairs):
    return tuple(conv_pair(p) for p in pairs)


def strip_tags(tree):
    return tuple((n, s, e, strip_tags(ch)) for (n, s, e, _t, ch) in tree)


def ref_tree(pairs):
    """Reference evaluator's list-of-(name,start,end,[children]) -> tagless tuple tree."""
    return tuple((n, s, e, ref_tree(ch)) for (n, s, e, ch) in pairs)


def shift_tree(tree, k):
    return tuple((n, s + k, e + k, t, shift_tree(ch, k)) for (n, s, e, t, ch) in tree)


def run(obj, rule: str, text: str, start: int = 0, keep: list | None = None):
    """Call obj.parse and normalise.  `obj` is a pest.Parser or a generated module.

    If `keep` is a list, the raw Pairs / exception object is appended to it.
    """
    from pest import PestParsingError

    try:
        if start:
            pairs = obj.parse(rule, text, start_pos=start)
        else:
            pairs = obj.parse(rule, text)
    except PestParsingError as e:
        if keep is not None:
            keep.append(e)
        st = e.state
        return (
            "fail",
            st.furthest_pos,
            tuple(sorted(st.furthest_expected)),
            tuple(sorted(st.furthest_unexpected)),
        )
    except RecursionError as e:
        if keep is not None:
            keep.append(e)
        return ("exc", "RecursionError", "")
    except Exception as e:  # noqa: BLE001
        if keep is not None:
            keep.append(e)
        return ("exc", type(e).__name__, str(e)[:200])
    if keep is not None:
        keep.append(pairs)
    return ("ok", conv_pairs(pairs))


def brief(res) -> str:
    """Compact human-readable rendering of a normalised result."""
    if res is None:
        return "no-match"
    if res[0] == "ok":

        def b(tree):
            return "[" + ", ".join(
                f"{n}({s},{e}){'#' + t if t else ''}{b(ch) if ch else ''}" for (n, s, e, t, ch) in tree
            ) + "]"

        return "ok " + b(res[1])
    return repr(res)


def brief_ref(tree) -> str:
    if tree is None:
        return "no-match"

    def b(tr):
        return "[" + ", ".join(f"{n}({s},{e}){b(ch) if ch else ''}" for (n, s, e, ch) in tr) + "]"

    return "ok " + b(tree)


class Modes:
    """Builds the execution modes of one grammar lazily; records build failures."""

    def __init__(self, text: str):
        self.text = text
        self.objs: dict[str, object] = {}
        self.errors: dict[str, tuple] = {}
        self.sources: dict[str, str] = {}

    def parser(self, mode: str, optimizer="default"):
        """mode 'I' or 'O' (or a custom key with an explicit optimizer object)."""
        if mode in self.objs:
            return self.objs[mode]
        if mode in self.errors:
            return None
        from pest import Parser

        try:
            if mode == "I":
                p = Parser.from_grammar(self.text, optimizer=None)
            elif optimizer == "default":
                p = Parser.from_grammar(self.text)
            else:
                p = Parser.from_grammar(self.text, optimizer=optimizer)
        except RecursionError:
            self.errors[mode] = ("load", "RecursionError", "")
            return None
        except Exception as e:  # noqa: BLE001
            self.errors[mode] = ("load", type(e).__name__, str(e)[:300])
            return None
        self.objs[mode] = p
        return p

    def generated(self, mode: str, base: str | None = None):
        """mode 'GI' / 'GO' (generated from 'I' / 'O'), or custom with base=key."""
        if mode in self.objs:
            return self.objs[mode]
        if mode in self.errors:
            return None
        base = base or {"GI": "I", "GO": "O"}[mode]
        p = self.parser(base)
        if p is None:
            self.errors[mode] = ("base-load",) + self.errors[base][1:]
            return None
        try:
            src = p.generate()
        except Exception as e:  # noqa: BLE001
            self.errors[mode] = ("generate", type(e).__name__, str(e)[:300])
            return None
        self.sources[mode] = src
        try:
            m = load_generated(src)
        except Exception as e:  # noqa: BLE001
            self.errors[mode] = ("import", type(e).__name__, str(e)[:300])
            return None
        self.objs[mode] = m
        return m

    def get(self, mode: str):
        if mode in ("I", "O"):
            return self.parser(mode)
        return self.generated(mode)
