"""Grammar TEXT generators for the front-end properties (C10 / C11).

 (1) derivations of pest's meta-grammar (every production, trivia at every legal place)
 (2) printed random grammar ASTs under randomised formatting
 (3) single-character and single-token mutants, truncations, token soups
Every text is classified by the meta-grammar oracle; nothing is assumed valid or invalid.
"""

from __future__ import annotations

import random
import re

from pv.gen import grammars as G
from pv.ref.meta_literal import META

IDENT_POOL = ["a", "b", "r_1", "_x", "x9", "DROP", "POP", "PEEK", "ANY", "EOI", "SOI", "ASCII_DIGIT", "PEEK_ALL", "POP_ALL", "NEWLINE", "LETTER", "POPPY", "PEEKER", "DROPS", "PUSH_x", "A", "zZ"]
RULE_NAME_POOL = [
    "a", "b", "r_1", "_x", "x9", "rule", "WHITESPACE", "COMMENT", "A", "zZ", "POPPY", "q",
    # identifiers that start or end like a keyword or a built-in: the scanner must take the longest identifier
    "PUSHx", "PEEK_ALL2", "POP_", "DROPS", "PEEK_", "PUSH_LITERALLY", "ANYTHING", "SOI2", "EOI_", "ASCII_DIGITS", "NEWLINE_", "peek", "push", "_", "__", "e", "xPOP", "a_PEEK",
]
STR_POOL = ["s", "", "a b", "\\n", "\\x41", "\\u{01F600}", "\\u{41}", "\\\"", "\\\\", "é", "\\0", "\\'", "\\u{123}", "\\t\\r", "//", "/*", "'", "{", "\\u{10FFFF}", "\\x7f", "\n", "#", "\\u{7ff}"]
CHR_POOL = ["a", "z", "\\x41", "\\u{5A}", "\\'", "\\\\", '"', "é", "\\n", "\\r", "\\t", "\\0", "'", "\\u{1F600}", "0", " ", "\\\"", "\\"]
TRIVIA = ["", "", " ", " ", "  ", "\n", "\t", " /* c */ ", " // c\n", "\r\n", "/* /* n */ */", "\n\n", " /**/ "]
ANY_ALPHA = list('ab_xyzPQ019 \n"\'\\{}()|~*+?!&^#.,-/[]=@$é')


class Deriver:
    def __init__(self, rnd: random.Random, clean: bool = False):
        self.r = rnd
        self.atomic = False
        self.clean = clean  # avoid the features behind findings that are recorded rather than repaired
        self.budget = 400

    def tv(self) -> str:
        return "" if self.atomic else self.r.choice(TRIVIA)

    def grammar(self) -> str:
        self.budget = 400
        out = ""
        if self.r.random() < 0.15:
            out += self.r.choice(["//! doc\n", "//!doc a\n//! b\n", "//!\n"])
        for _ in range(self.r.randint(1, 3)):
            out += self.tv() + self.rule("grammar_rule", 3)
        return out + self.tv()

    def rule(self, name: str, depth: int) -> str:  # noqa: PLR0911, PLR0912
        r = self.r
        self.budget -= 1
        if self.budget < 0:
            return "a"
        if name == "identifier" and r.random() < 0.85:
            return r.choice(IDENT_POOL)
        if name == "inner_str" and r.random() < 0.85:
            return r.choice(STR_POOL)
        if name == "inner_chr" and r.random() < 0.85:
            return r.choice(CHR_POOL)
        if name == "inner_doc":
            return r.choice(["", "doc", " two words", "x /* y */", "\ttab"])
        if name == "number":
            return r.choice(["0", "1", "2", "3", "10", "007"])
        if name == "integer":
            return r.choice(["0", "1", "2", "-1", "-2", "-01", "12", "-10"])
        if name == "expression" and depth <= 0:
            return r.choice(['"s"', "a", "'a'..'z'", "ANY", "b"])
        if name == "term" and self.clean and r.random() < 0.5:
            # clean stratum: a tag only on a bare rule reference / group without postfix operators
            pre = r.choice(["", "", "!", "&", "!!", "&!"])
            post = r.choice(["", "", "*", "+", "?", "{2}", "{1,}", "{,3}", "{1, 2}", "{ 2 }", "*?", "+?"])
            return pre + self.tv() + self.rule("node", depth - 1) + self.tv() + post
        if name == "grammar_rule" and r.random() < 0.93:
            body = META[name][1][1][0]  # the rule alternative (line_doc only rarely)
            # rule NAMES come from their own pool (definitions of core built-ins are outside the statement)
            rest = ("seq", body[1][1:])
            nm = r.choice(RULE_NAME_POOL) if r.random() < 0.9 else self.rule("identifier", depth)
            return nm + self.tv() + self.ev(rest, depth)
        if name == "grammar_rule":
            return r.choice(["/// doc\n", "///doc", "/// a\n/// b\n"])
        mod, body = META[name]
        old = self.atomic
        if mod in ("@", "$"):
            self.atomic = True
        elif mod == "!":
            self.atomic = False
        s = self.ev(body, depth - (1 if name in ("expression", "term") else 0))
        self.atomic = old
        return s

    def ev(self, e, depth: int) -> str:  # noqa: PLR0911, PLR0912
        r = self.r
        k = e[0]
        if k in ("str", "ci"):
            return e[1]
        if k == "range":
            return chr(r.randint(ord(e[1]), ord(e[2])))
        if k == "any":
            return r.choice(ANY_ALPHA)
        if k in ("soi", "eoi", "and", "not"):
            return ""
        if k == "ref":
            if e[1] in ("WHITESPACE", "COMMENT"):
                return " "
            return self.rule(e[1], depth)
        if k == "group":
            return self.ev(e[1], depth)
        if k == "seq":
            out = ""
            for i, x in enumerate(e[1]):
                if i:
                    out += self.tv()
                out += self.ev(x, depth)
            return out
        if k == "alt":
            return self.ev(r.choice(e[1]), depth)
        if k == "opt":
            return self.ev(e[1], depth) if r.random() < 0.5 else ""
        if k in ("star", "plus"):
            n = r.randint(0 if k == "star" else 1, 3)
            out = ""
            for i in range(n):
                if i:
                    out += self.tv()
                out += self.ev(e[1], depth)
            return out
        if k == "exact":
            return "".join(self.ev(e[1], depth) for _ in range(e[2]))
        if k == "minmax":
            return "".join(self.ev(e[1], depth) for _ in range(r.randint(e[2], e[3])))
        raise ValueError(k)


# ----------------------------------------------------------------------------------------
# printed ASTs with randomised formatting


def _tokens(e, out: list[str], rnd: random.Random, top: bool = True) -> None:  # noqa: PLR0912
    from pv.ref.refpeg import POSTFIX, _suffix, esc, esc_char

    k = e[0]

    def paren(x):
        out.append("(")
        _tokens(x, out, rnd, True)
        out.append(")")

    if k in POSTFIX:
        inner = e[1]
        if inner[0] in ("and", "not", "tag", "seq", "alt") or (inner[0] in POSTFIX and rnd.random() < 0.5):
            paren(inner)
        else:
            _tokens(inner, out, rnd, False)
        suf = _suffix(e)
        if suf.startswith("{"):
            out.extend(re.findall(r"[{},]|\d+", suf))
        else:
            out.append(suf)
        return
    if k == "str":
        out.append(f'"{esc(e[1])}"')
    elif k == "ci":
        out.extend(["^", f'"{esc(e[1])}"'])
    elif k == "range":
        out.extend([f"'{esc_char(e[1])}'", "..", f"'{esc_char(e[2])}'"])
    elif k == "builtin":
        out.append(e[1])
    elif k in ("newline", "any", "soi", "eoi"):
        out.append({"newline": "NEWLINE", "any": "ANY", "soi": "SOI", "eoi": "EOI"}[k])
    elif k == "ref":
        out.append(e[1])
    elif k in ("seq", "alt"):
        if not top:
            out.append("(")
        if k == "alt" and rnd.random() < 0.1:
            out.append("|")
        for i, x in enumerate(e[1]):
            if i:
                out.append("~" if k == "seq" else "|")
            _tokens(x, out, rnd, False)
        if not top:
            out.append(")")
    elif k == "group":
        paren(e[1])
    elif k == "tag":
        out.extend(["#" + e[1], "="])
        _tokens(e[2], out, rnd, False)
    elif k in ("and", "not"):
        out.append("&" if k == "and" else "!")
        if e[1][0] == "tag":
            paren(e[1])
        else:
            _tokens(e[1], out, rnd, False)
    elif k == "push":
        out.extend(["PUSH", "("])
        _tokens(e[1], out, rnd, True)
        out.append(")")
    elif k == "pushlit":
        out.extend(["PUSH_LITERAL", "(", f'"{esc(e[1])}"', ")"])
    elif k in ("peek", "peekall", "pop", "popall", "drop"):
        out.append({"peek": "PEEK", "peekall": "PEEK_ALL", "pop": "POP", "popall": "POP_ALL", "drop": "DROP"}[k])
    elif k == "slice":
        out.extend(["PEEK", "["])
        if e[1] is not None:
            out.append(str(e[1]))
        out.append("..")
        if e[2] is not None:
            out.append(str(e[2]))
        out.append("]")
    else:
        raise ValueError(k)


def printed_grammar(rnd: random.Random, noisy: bool = True) -> str:
    prof = dict(G.PROFILES["full"])
    prof["tags"] = True
    rules = G.GrammarGen(rnd, prof).grammar(maxdepth=3)
    toks: list[str] = []
    for name, (mod, expr) in rules.items():
        if rnd.random() < 0.2:
            toks.append("/// doc for " + name + "\n")
        toks.extend([name, "="])
        if mod:
            toks.append(mod)
        toks.append("{")
        _tokens(expr, toks, rnd, True)
        toks.append("}")
    style = rnd.choice(["tight", "spaced", "noisy", "noisy"]) if noisy else "spaced"
    out = []
    for i, t in enumerate(toks):
        if i:
            if style == "tight":
                sep = "" if not (t[0].isalnum() or t[0] == "_") or not (toks[i - 1][-1].isalnum() or toks[i - 1][-1] == "_") else " "
                if toks[i - 1].startswith("///"):
                    sep = ""
            elif style == "spaced":
                sep = " "
            else:
                sep = rnd.choice(TRIVIA)
                if not sep and (t[0].isalnum() or t[0] == "_") and (toks[i - 1][-1].isalnum() or toks[i - 1][-1] == "_"):
                    sep = " "
            out.append(sep)
        out.append(t)
    text = "".join(out)
    if rnd.random() < 0.15:
        text = "//! grammar doc\n" + text
    return text


# ----------------------------------------------------------------------------------------
# mutations

TOKEN_RE = re.compile(r"[A-Za-z_][A-Za-z_0-9]*|\"(?:[^\"\\]|\\.)*\"|'(?:[^'\\]|\\.)+'|\.\.|//[^\n]*|/\*.*?\*/|\s+|.", re.S)
MUT_ALPHA = list('ab_ ={}()[]|~*+?!&^"\'\\.,#/@$-0123456789\nPUSHPEEKPOPDROP\r\tu{}xé')
MUT_TOKENS = ["~", "|", "(", ")", "{", "}", "*", "+", "?", "!", "&", "=", "a", '"s"', "'a'", "..", "PUSH", "PEEK", "POP", "DROP", "[", "]", ",", "1", "#t", "^", "_", "@", "$", "///", "//!", "/*", "*/", "//", "\n", " "]


def mutate_char(rnd: random.Random, t: str) -> str:
    if not t:
        return rnd.choice(MUT_ALPHA)
    i = rnd.randrange(len(t) + 1)
    c = rnd.random()
    if c < 0.3 and i < len(t):
        return t[:i] + t[i + 1 :]
    if c < 0.65:
        return t[:i] + rnd.choice(MUT_ALPHA) + t[i:]
    if i < len(t):
        return t[:i] + rnd.choice(MUT_ALPHA) + t[i + 1 :]
    return t[:i]


def mutate_token(rnd: random.Random, t: str) -> str:
    toks = TOKEN_RE.findall(t)
    if not toks:
        return rnd.choice(MUT_TOKENS)
    i = rnd.randrange(len(toks))
    c = rnd.random()
    if c < 0.3:
        del toks[i]
    elif c < 0.5:
        toks.insert(i, toks[i])
    elif c < 0.75:
        toks[i] = rnd.choice(MUT_TOKENS)
    elif c < 0.9:
        toks.insert(i, rnd.choice(MUT_TOKENS))
    else:
        j = rnd.randrange(len(toks))
        toks[i], toks[j] = toks[j], toks[i]
    return "".join(toks)


def token_soup(rnd: random.Random) -> str:
    return "".join(rnd.choice(MUT_TOKENS + [" ", " "]) for _ in range(rnd.randint(0, 14)))


def char_soup(rnd: random.Random) -> str:
    return "".join(rnd.choice(MUT_ALPHA) for _ in range(rnd.randint(0, 16)))


EDGE_TEXTS = [
    "", " ", "\n", "\t \n", "// c", "// c\n", "/* c */", "/* c", "/*", "/", "//", "///", "/// d", "/// d\n", "//!", "//! d", "//! d\n", "a", "a =", "a = ", "a = {", "a = { ",
    'a = { "', 'a = { "x', 'a = { "x\\', 'a = { "\\x', 'a = { "\\x4', 'a = { "\\u', 'a = { "\\u{', 'a = { "\\u{12', 'a = { "\\u{12}', "a = { '", "a = { 'a", "a = { 'a'", "a = { 'a'.",
    "a = { 'a'..", "a = { 'a'..'", "a = { 'a'..'b", "a = { b", "a = { b ~", "a = { b |", "a = { (", "a = { (b", "a = { b{", "a = { b{1", "a = { b{1,", "a = { PUSH", "a = { PUSH(",
    "a = { PUSH(b", "a = { PEEK[", "a = { PEEK[1", "a = { PEEK[1..", "a = { #", "a = { #t", "a = { #t =", "a = { ^", 'a = { ^"', "a = { !", "a = { &", "a = _", "a = _{", "}", "{", "=",
    'a = { "\\xZZ" }', 'a = { "\\u{110000}" }', 'a = { "\\u{D800}" }', 'a = { "\\u{ZZ}" }', 'a = { "\\u{}" }', 'a = { "\\u41" }', "a = { 'z'..'a' }", "a = { undefined_rule }",
    "a = { b }", "a = { a }", "a = { a* }", "a = _{ b } b = _{ c }", "a = { #t = undefined }", "a = { !undefined }", "a = { PUSH(undefined) }", "a = { b{99999} }",
    "a = { (!a ~ ANY)* }", "a = @{ (!a ~ ANY)* }", "a = { (!b ~ ANY)* }\nb = { a }", "a = @{ (!(b | \"x\") ~ ANY)* }\nb = { \"y\" | a }", "a = { (!b ~ ANY)* }\nb = { c }\nc = { b | \"z\" }",
    "a = { (!undefined ~ ANY)* }", "a = @{ (!(\"x\" | undefined) ~ ANY)* }", "WHITESPACE = _{ \" \" }\na = @{ (!b ~ ANY)* }\nb = { \"q\" | nope }",
    "a = { \"x\" }\n\n\n", "\n\n\na = {", "a = {\n\n\n", "a = { b }\n b", "é = { b }", "a = { é }", "a = { \"é\" ~ }", "\ufeffa = { b }", "a = { b }\x00", "a\x00 = { b }",
]


# ----------------------------------------------------------------------------------------
# escapes: well-formed and ill-formed \x / \u{} / simple escapes, in strings, CI strings, PUSH_LITERAL and range bounds

ESC_ALPHA = list("0123456789abcdefABCDEFgGxX_+- {}\\\"'٤u")


def escape_text(rnd: random.Random) -> str:
    c = rnd.random()
    if c < 0.35:
        body = "\\x" + "".join(rnd.choice(ESC_ALPHA) for _ in range(rnd.choice([0, 1, 2, 2, 2, 3])))
    elif c < 0.8:
        n = rnd.choice([0, 1, 2, 3, 4, 5, 6, 7, 8])
        inner = "".join(rnd.choice(ESC_ALPHA[:22] if rnd.random() < 0.7 else ESC_ALPHA) for _ in range(n))
        body = "\\u" + rnd.choice(["{", "{", "{", ""]) + inner + rnd.choice(["}", "}", "}", ""])
    else:
        body = "\\" + rnd.choice(list("nrt0\\\"'/bfaeNvz1 "))
    pre = rnd.choice(["", "", "a", "\\n"])
    post = rnd.choice(["", "", "b", "!"])
    ctx = rnd.random()
    if ctx < 0.5:
        return f'a = {{ "{pre}{body}{post}" }}'
    if ctx < 0.65:
        return f'a = {{ ^"{pre}{body}{post}" }}'
    if ctx < 0.75:
        return f'a = {{ PUSH_LITERAL("{pre}{body}{post}") }}'
    if ctx < 0.9:
        return f"a = {{ '{body}'..'z' }}"
    return f"a = {{ 'a'..'{body}' }}"
