"""Grammar and input generators (DESIGN.md 3.4).

Everything is well-formed by construction for the classes the properties quantify over:
rule references form a DAG (plus guarded self-recursion behind a consumed literal), no
repetition is ever applied to an expression that may match empty (conservative nullability
analysis), no {0} / {,0}, every reference is defined, pushed strings are never empty.
"""

from __future__ import annotations

import itertools
import random

from pv.ref.refpeg import nullable, walk

LITS = ["a", "b", "ab", "ba", "aa", "c", "bc", "abc", "bab"]
CI_LITS = ["a", "ab", "B", "Ab", "abc", "aBc", "bab"]
META_LITS = ["[", "]", "(", ")", "-", "^", ".", "*", "\\", "|", "&", "~", "{", "}", "$", "+", "?", "[a", "a]", "||", "--", "&&", "~~"]
RANGES = [("a", "b"), ("a", "c"), ("b", "b"), ("A", "B"), ("a", "z")]
BUILTINS = ["ASCII_ALPHA_LOWER", "ASCII_ALPHA", "ASCII_ALPHA_UPPER", "ASCII_ALPHANUMERIC", "ASCII_HEX_DIGIT", "ASCII_DIGIT"]
# the remaining ASCII rules and a few Unicode general-category rules (the optimizer and the code generator treat those as a class of their own)
BUILTINS_MORE = ["ASCII", "ASCII_NONZERO_DIGIT", "ASCII_BIN_DIGIT", "ASCII_OCT_DIGIT", "LETTER", "UPPERCASE_LETTER", "LOWERCASE_LETTER", "NUMBER", "DECIMAL_NUMBER", "PUNCTUATION"]
BUILTIN_CHARS = {
    "ASCII_DIGIT": "1", "ASCII_HEX_DIGIT": "f1a", "ASCII_ALPHA_UPPER": "A", "ASCII_ALPHA_LOWER": "ab", "ASCII": "a1 ", "ASCII_NONZERO_DIGIT": "1", "ASCII_BIN_DIGIT": "1",
    "ASCII_OCT_DIGIT": "1", "LETTER": "aAb\u00e9", "UPPERCASE_LETTER": "A\u00c9", "LOWERCASE_LETTER": "ab\u00e9", "NUMBER": "1\u00b2", "DECIMAL_NUMBER": "1", "PUNCTUATION": "#-",
}

WS_BODIES = [
    ("str", " "),
    ("alt", [("str", " "), ("str", "\t")]),
    ("alt", [("str", " "), ("newline",)]),
    ("seq", [("str", " "), ("str", " ")]),  # multi-element body: partial match must rewind
    ("plus", ("str", " ")),
]
CM_BODIES = [
    ("str", "#"),
    ("seq", [("str", "#"), ("star", ("range", "a", "c"))]),
    ("seq", [("str", "/*"), ("star", ("seq", [("not", ("str", "*/")), ("any",)])), ("str", "*/")]),
    ("seq", [("str", "#"), ("str", "#")]),
    # a negative predicate the skip pass cannot turn into a substring search (built-in + range operands)
    ("seq", [("str", "#"), ("star", ("seq", [("not", ("alt", [("newline",), ("range", "x", "z")])), ("any",)]))]),
]
# trivia bodies that call other rules (only for the relative properties: pest hides such pairs, the statements do not say)
WS_REF_BODIES = [("seq", [("ref", "wsp"), ("opt", ("str", "_"))]), ("alt", [("ref", "wsp"), ("str", "\t")])]
CM_REF_BODIES = [("seq", [("ref", "copen"), ("str", "x")]), ("seq", [("ref", "copen"), ("star", ("range", "a", "c")), ("str", ";")])]
TRIVIA_HELPERS = {"wsp": ("", ("str", " ")), "copen": ("", ("str", "#"))}

PROFILES: dict[str, dict] = {
    # C03: core operators, normal and silent rules, no trivia, no stack
    "core": {"mods": ["", "", "_"], "stack": False, "trivia": None},
    # C04: trivia + modifiers
    "trivia": {"mods": ["", "", "_", "@", "$", "!"], "stack": False, "trivia": ["w", "w", "c", "wc", "wc", ""]},
    # C05: stack operations, no trivia
    "stack": {"mods": ["", "", "_"], "stack": True, "trivia": None, "stack_weight": 0.30},
    # everything together (relative properties C01/C02/C06/C07/C13/C16)
    "full": {"mods": ["", "", "_", "@", "$", "!"], "stack": True, "trivia": ["w", "c", "wc", "", ""], "tags": True, "skipuntil": True, "stack_weight": 0.12, "soi": True},
}


class GrammarGen:
    def __init__(self, rnd: random.Random, profile: dict):
        self.r = rnd
        self.p = profile
        self.null: dict[str, bool] = {}
        self.tagn = 0

    def _null_of(self, name: str) -> bool:
        return self.null.get(name, True)

    def term(self):
        r = self.r
        c = r.random()
        sw = self.p.get("stack_weight", 0.0) if self.p.get("stack") else 0.0
        if c < sw:
            return r.choice(
                [
                    ("peek",), ("pop",), ("pop",), ("drop",), ("peekall",), ("popall",),
                    ("pushlit", r.choice(["a", "b", "ab"])),
                    ("push", self.nonnull_simple()),
                    ("push", self.nonnull_simple() if not self.p.get("push_empty") else r.choice([("opt", ("str", "a")), ("star", ("str", "b")), ("alt", [("str", "ab"), ("str", "")]), self.nonnull_simple()])),
                    ("slice", r.choice([None, 0, 1, -1]), r.choice([None, 1, 2, -1])),
                ]
            )
        c = r.random()
        if self.p.get("trivia_explicit") and self.p.get("trivia") and c < 0.05:
            return ("ref", r.choice(["WHITESPACE", "COMMENT"]))
        if self.p.get("linebreak_lits") and c < 0.16:
            # line-break characters as ordinary literals: failures land on, between and right after them (C13)
            return r.choice([("str", "\r"), ("str", "\n"), ("str", "\r\n"), ("str", "\u2028"), ("newline",), ("str", "a\r"), ("range", "\n", "\r")])
        if self.p.get("ci_nonascii") and c < 0.06:
            return ("ci", r.choice(["\u00df", "\u00e9", "\u01c6", "\u0130", "\u212a", "k\u00e9"]))
        if self.p.get("more_builtins") and c < 0.03:
            # literals that are metacharacters of the regex dialect the optimized forms are compiled to
            return ("str", r.choice(META_LITS))
        if c < 0.45:
            return ("str", r.choice(LITS))
        if c < 0.55:
            return ("ci", r.choice(CI_LITS))
        if c < 0.70:
            return ("range", *r.choice(RANGES))
        if c < 0.78:
            return ("builtin", r.choice(BUILTINS + BUILTINS_MORE if self.p.get("more_builtins") else BUILTINS))
        if c < 0.85:
            return ("any",)
        if c < 0.89:
            return ("eoi",)
        if c < 0.91 and self.p.get("soi"):
            return ("soi",)
        if c < 0.93 and (self.p.get("trivia") or self.p.get("more_builtins")):
            return ("newline",)
        return ("str", r.choice(["a", "b"]))

    def nonnull_simple(self):
        r = self.r
        return r.choice(
            [
                ("str", r.choice(["a", "b", "ab"])),
                ("range", "a", "b"),
                ("alt", [("str", "a"), ("str", "b")]),
                ("plus", ("str", "a")),
                ("any",),
                ("seq", [("str", "a"), ("opt", ("str", "b"))]),
            ]
        )

    def nonnull(self, depth, lower):
        for _ in range(25):
            e = self.expr(depth, lower)
            if not nullable(e, self._null_of):
                return e
        return ("str", self.r.choice(["a", "b"]))

    def skip_until(self, lower=()):
        r = self.r
        if lower and r.random() < 0.15:
            # the stop "set" is a reference to another rule, whatever that rule's body is (a literal, a choice, another loop, something nullable)
            return ("star", ("group", ("seq", [("not", ("ref", r.choice(lower))), ("any",)])))
        # mostly 1-3 stop strings, now and then 5-8 (implementations switch strategy with the number of stop strings)
        lits = r.sample(["a", "b", "ab", "c", "ba"], r.randint(1, 3)) if r.random() < 0.8 else r.sample(["a", "b", "ab", "c", "ba", "cc", "bc", "ca", "x", "y"], r.randint(5, 8))
        alts = [("str", s) for s in lits]
        if self.p.get("skipuntil_ci") and r.random() < 0.4:
            alts.insert(r.randrange(len(alts) + 1), ("ci", r.choice(["ab", "Ba", "c"])))
        inner = ("str", lits[0]) if len(alts) == 1 and r.random() < 0.5 else ("group", ("alt", alts))
        return ("star", ("group", ("seq", [("not", inner), ("any",)])))

    def expr(self, depth, lower):  # noqa: PLR0911, PLR0912
        r = self.r
        if depth <= 0 or r.random() < 0.22:
            if lower and r.random() < 0.45:
                name = r.choice(lower)
                if self.p.get("tags") and r.random() < 0.15:
                    self.tagn += 1
                    return ("tag", f"t{self.tagn}", ("ref", name))
                return ("ref", name)
            return self.term()
        c = r.random()

        def sub():
            return self.expr(depth - 1, lower)

        if self.p.get("tags") and c < 0.03:
            # a tag on a parenthesised group, alone or under a counted repetition / postfix operator
            self.tagn += 1
            g = ("group", sub())
            form = r.random()
            if form < 0.4:
                return ("tag", f"g{self.tagn}", g)
            if form < 0.7:
                return ("tag", f"g{self.tagn}", r.choice([("exact", ("group", self.nonnull(depth - 1, lower)), 2), ("min", ("group", self.nonnull(depth - 1, lower)), 1), ("minmax", ("group", self.nonnull(depth - 1, lower)), 1, 2), ("plus", ("group", self.nonnull(depth - 1, lower)))]))
            return r.choice([("exact", ("tag", f"g{self.tagn}", ("group", self.nonnull(depth - 1, lower))), 2), ("plus", ("tag", f"g{self.tagn}", ("group", self.nonnull(depth - 1, lower))))])
        if self.p.get("zero_width_stack_reps") and self.p.get("stack") and c < 0.05:
            return r.choice([("star", ("drop",)), ("star", ("seq", [("drop",), ("and", ("str", ""))])), ("plus", ("drop",)), ("star", ("seq", [("not", ("str", "q")), ("drop",)]))])
        if c < 0.26:
            return ("seq", [sub() for _ in range(r.randint(2, 3))])
        if c < 0.46:
            return ("alt", [sub() for _ in range(r.randint(2, 3))])
        if c < 0.54:
            return ("opt", sub())
        if c < 0.64:
            return ("star", self.nonnull(depth - 1, lower))
        if c < 0.71:
            return ("plus", self.nonnull(depth - 1, lower))
        zero = self.p.get("zero_counts") and r.random() < 0.2
        if c < 0.75:
            return ("exact", self.nonnull(depth - 1, lower), 0 if zero else r.randint(1, 3))
        if c < 0.79:
            return ("min", self.nonnull(depth - 1, lower), r.randint(0, 2))
        if c < 0.83:
            return ("max", self.nonnull(depth - 1, lower), 0 if zero else r.randint(1, 3))
        if c < 0.87:
            m = r.randint(0, 2)
            if zero:
                return ("minmax", self.nonnull(depth - 1, lower), 0, 0)
            return ("minmax", self.nonnull(depth - 1, lower), m, max(1, m + r.randint(0, 2)))
        if c < 0.91:
            return ("and", sub())
        if c < 0.95:
            return ("not", sub())
        if c < 0.97 and self.p.get("skipuntil"):
            return self.skip_until(lower)
        if self.p.get("stack"):
            return ("push", self.nonnull(depth - 1, lower))
        return ("group", sub())

    def grammar(self, nrules=None, maxdepth=3) -> dict:
        from pv.ref import refpeg

        refpeg.STACK_MAY_HOLD_EMPTY[0] = bool(self.p.get("push_empty"))
        r = self.r
        n = nrules or r.randint(1, 5)
        names = [f"r{i}" for i in range(n)]
        rules: dict = {}
        self.null = {}
        for i in reversed(range(n)):
            lower = names[i + 1 :]
            e = self.expr(r.randint(1, maxdepth), lower)
            if r.random() < 0.12:
                # guarded recursion: "(" ~ self ~ ")" | e
                e = ("alt", [("seq", [("str", "("), ("ref", names[i]), ("str", ")")]), e])
                self.null[names[i]] = True  # conservative while analysing the body
            mod = r.choice(self.p.get("mods", [""]))
            self.null[names[i]] = nullable(e, self._null_of)
            rules[names[i]] = (mod, e)
        out = {nm: rules[nm] for nm in names}
        tv = self.p.get("trivia")
        if tv:
            c = r.choice(tv)
            refs = self.p.get("trivia_refs") and r.random() < 0.35
            # with rule references in the bodies the modifier of the trivia rule decides what is visible: all five are legal
            tmods = ["_", "_", "", "$", "$", "@", "!"] if refs else ["_", "_", ""]
            if "w" in c:
                out["WHITESPACE"] = (r.choice(tmods), r.choice(WS_REF_BODIES if refs and r.random() < 0.5 else WS_BODIES))
            if "c" in c:
                out["COMMENT"] = (r.choice(tmods), r.choice(CM_REF_BODIES if refs else CM_BODIES))
            for _n, (_m, x) in list(out.items()):
                for nd in walk(x):
                    if nd[0] == "ref" and nd[1] in TRIVIA_HELPERS:
                        out[nd[1]] = TRIVIA_HELPERS[nd[1]]
            # an explicit reference to a trivia rule that this grammar does not define becomes a plain literal
            for nm in list(out):
                m, x = out[nm]
                out[nm] = (m, _replace_missing_trivia_refs(x, out))
        return out


HOSTILE_NAMES = [
    "a", "A", "x", "X", "_x", "_x_", "__x__", "class", "def", "None", "import", "lambda", "Rule", "Pair", "Pairs", "re", "parse", "state", "pairs",
    "matched", "inner", "rule_frame", "ParserState", "RuleFrame", "main", "Parser", "name", "value", "mro", "_", "__", "RULE_X", "rule_x", "trivia", "EOI_", "eoi",
    "SKIP", "skip", "skip_trivia", "WHITESPACE_", "whitespace", "Comment", "SOI_", "ANY_", "PUSH_", "pop",
]


def rename_rules(rules: dict, rnd: random.Random) -> dict:
    """Same grammar under rule names that stress the code generator (case twins, Python keywords, enum-reserved forms, module globals)."""
    own = [n for n in rules if n.startswith("r") and n[1:].isdigit()]
    pool = rnd.sample(HOSTILE_NAMES, len(own))
    if own and "SKIP" not in pool and rnd.random() < 0.3:
        # the optimizer's fused trivia rule is called SKIP internally; a grammar's own SKIP rule is an ordinary rule
        pool[rnd.randrange(len(pool))] = "SKIP"
    m = dict(zip(own, pool))

    def ren(e):
        k = e[0]
        if k == "ref":
            return ("ref", m.get(e[1], e[1]))
        if k in ("seq", "alt"):
            return (k, [ren(x) for x in e[1]])
        if k in ("opt", "star", "plus", "and", "not", "push", "group"):
            return (k, ren(e[1]))
        if k in ("exact", "min", "max"):
            return (k, ren(e[1]), e[2])
        if k == "minmax":
            return (k, ren(e[1]), e[2], e[3])
        if k == "tag":
            return ("tag", e[1], ren(e[2]))
        return e

    return {m.get(n, n): (mod, ren(x)) for n, (mod, x) in rules.items()}


def _replace_missing_trivia_refs(e, rules):
    k = e[0]
    if k == "ref" and e[1] in ("WHITESPACE", "COMMENT") and e[1] not in rules:
        return ("str", " ")
    if k in ("seq", "alt"):
        return (k, [_replace_missing_trivia_refs(x, rules) for x in e[1]])
    if k in ("opt", "star", "plus", "and", "not", "push", "group"):
        return (k, _replace_missing_trivia_refs(e[1], rules))
    if k in ("exact", "min", "max"):
        return (k, _replace_missing_trivia_refs(e[1], rules), e[2])
    if k == "minmax":
        return (k, _replace_missing_trivia_refs(e[1], rules), e[2], e[3])
    if k == "tag":
        return ("tag", e[1], _replace_missing_trivia_refs(e[2], rules))
    return e


# ----------------------------------------------------------------------------------------
# optimizer-target family (C02): every shape the optimizer passes pattern-match on, over every ordered pair of
# "literal-like" operands, so that each pass meets the output of each other pass (ordered pass subsets are
# enumerated by the engine).

OPT_OPERANDS: list[tuple[str, tuple]] = [
    ("a", ("str", "a")),
    ("ab", ("str", "ab")),
    ("ciab", ("ci", "ab")),
    ("cic", ("ci", "c")),
    ("rng", ("range", "a", "c")),
    ("dig", ("builtin", "ASCII_DIGIT")),
    ("uletter", ("builtin", "LETTER")),
    ("unum", ("builtin", "NUMBER")),
    ("any", ("any",)),
    ("sl", ("ref", "sl")),
    ("sc", ("ref", "sc")),
    ("nl", ("ref", "nl")),
    ("nested", ("group", ("alt", [("str", "b"), ("ci", "a")]))),
]
OPT_HELPERS = {
    "sl": ("_", ("str", "b")),
    "sc": ("_", ("alt", [("str", "b"), ("ci", "c")])),
    "nl": ("", ("str", "b")),
}


def _opt_shapes():
    def G_(x):
        return ("group", x)

    return [
        ("choice", lambda c: c),
        ("choice_star", lambda c: ("star", G_(c))),
        ("choice_plus", lambda c: ("plus", G_(c))),
        ("choice_opt_then", lambda c: ("seq", [("opt", G_(c)), ("str", "b")])),
        ("choice_exact", lambda c: ("exact", G_(c), 2)),
        ("choice_tagged", lambda c: ("seq", [("tag", "t", G_(c)), ("star", ("any",))])),
        ("until", lambda c: ("star", G_(("seq", [("not", G_(c)), ("any",)])))),
        ("until_then", lambda c: ("seq", [("star", G_(("seq", [("not", G_(c)), ("any",)]))), G_(c)])),
        ("until_plus", lambda c: ("plus", G_(("seq", [("not", G_(c)), ("any",)])))),
        ("until_ref", lambda c: ("seq", [("star", G_(("seq", [("not", ("ref", "stop")), ("any",)]))), ("opt", ("ref", "stop"))])),
        ("until_ref_normal", lambda c: ("seq", [("star", G_(("seq", [("not", ("ref", "nstop")), ("any",)]))), ("opt", ("ref", "nstop"))])),
        ("not_any", lambda c: ("seq", [("not", G_(c)), ("any",), ("star", ("any",))])),
        # the loop lives in a plain / silent rule of its own that is only CALLED from r (atomic or not by r's modifier);
        # every rule is also used as a start rule, where the callee runs with trivia enabled
        ("until_in_callee", lambda c: ("seq", [("ref", "loop"), ("opt", ("ref", "stop"))])),
        ("until_in_silent_callee", lambda c: ("seq", [("ref", "sloop"), ("opt", ("ref", "stop"))])),
        # the stop rule of a loop is itself such a loop (defined before / after the rule that uses it): "!loop" never holds, the outer loop never iterates
        ("until_of_loop_before", lambda c: ("seq", [("star", G_(("seq", [("not", ("ref", "lstop")), ("any",)]))), ("opt", G_(c))])),
        ("until_of_loop_after", lambda c: ("seq", [("star", G_(("seq", [("not", ("ref", "lstop")), ("any",)]))), ("opt", G_(c)), ("opt", ("str", "z"))])),
        ("until_of_normal_loop", lambda c: ("seq", [("star", G_(("seq", [("not", ("ref", "nlstop")), ("any",)]))), ("opt", G_(c))])),
    ]


OPT_SHAPES = _opt_shapes()
OPT_MODS = ["", "@", "$"]
OPT_TRIVIA = [False, True]


# for load-only use (C11): the same family with operands that are legal but make no sense to parse with inside a repetition
OPT_OPERANDS_WITH_EMPTY = OPT_OPERANDS + [("empty", ("str", "")), ("ciempty", ("ci", "")), ("eoi", ("eoi",)), ("peek", ("peek",))]


def opt_target_size(operands=None) -> int:
    n = len(operands or OPT_OPERANDS)
    return n * n * len(OPT_SHAPES) * len(OPT_MODS) * len(OPT_TRIVIA)


def opt_target_case(idx: int, operands=None):
    OPT_OPERANDS = operands or globals()["OPT_OPERANDS"]  # noqa: N806
    n = len(OPT_OPERANDS)
    idx, tv = divmod(idx, len(OPT_TRIVIA))
    idx, mi = divmod(idx, len(OPT_MODS))
    idx, si = divmod(idx, len(OPT_SHAPES))
    i, j = divmod(idx, n)
    (na, a), (nb, b) = OPT_OPERANDS[i], OPT_OPERANDS[j]
    sname, shape = OPT_SHAPES[si]
    # i == j: a single operand (no choice at all), otherwise the ordered pair as a choice
    c = a if i == j else ("alt", [a, b])
    rules: dict = {"r": (OPT_MODS[mi], shape(c))}
    if sname in ("until_in_callee", "until_in_silent_callee"):
        rules["stop"] = ("_", c)
        rules["loop" if sname == "until_in_callee" else "sloop"] = ("" if sname == "until_in_callee" else "_", ("star", ("group", ("seq", [("not", ("group", c)), ("any",)]))))
    if sname == "until_ref":
        rules["stop"] = ("_", c)
    if sname == "until_ref_normal":
        rules["nstop"] = ("", c)
    loop_ = ("star", ("group", ("seq", [("not", ("group", c)), ("any",)])))
    if sname == "until_of_loop_before":
        rules = {"lstop": ("_", loop_), **rules}
    if sname == "until_of_loop_after":
        rules["lstop"] = ("@", loop_)
    if sname == "until_of_normal_loop":
        rules = {"nlstop": ("", loop_), **rules}
    used = {x[1] for _n, (_m, e) in list(rules.items()) for x in walk(e) if x[0] == "ref"}
    for h in ("sl", "sc", "nl"):
        if h in used:
            rules[h] = OPT_HELPERS[h]
    if OPT_TRIVIA[tv]:
        rules["WHITESPACE"] = ("_", ("str", " "))
    label = f"opt/{sname}/{na}-{nb}/{OPT_MODS[mi] or 'n'}/{'ws' if OPT_TRIVIA[tv] else 'nows'}"
    inputs = ["abc AB c", "xx AB", "zzCz", "z Ab", "1a", "zz1", "a b", "B", "zzAb", "zz aB b", "C", "zc", "zzab", "z\u00e91Ab", "\u00b2 \u00c9b"]
    return label, rules, inputs


# ----------------------------------------------------------------------------------------
# stack scenarios: parse-driven histories of push / pop / checkpoint / commit / rollback


def stack_scenario(rnd: random.Random) -> dict:
    """prologue of pushes ~ nested backtracking constructs over stack operations ~ epilogue that reads the stack back.

    DROP changes the stack without needing input, "!" is a literal that is (almost) never in the
    input, so inner constructs commit stack changes and outer ones fail afterwards: exactly the
    histories in which the snapshotting stack has to hand popped items over to enclosing snapshots.
    """
    letters = ["a", "b", "c"]

    def leaf():
        c = rnd.random()
        if c < 0.30:
            return ("drop",)
        if c < 0.45:
            return ("pop",)
        if c < 0.65:
            return ("pushlit", rnd.choice(letters))
        if c < 0.72:
            return ("push", ("range", "a", "c"))
        if c < 0.80:
            return ("peek",)
        if c < 0.90:
            return ("str", "!")
        return ("str", rnd.choice(letters))

    def node(d):
        if d <= 0 or rnd.random() < 0.25:
            return leaf()
        c = rnd.random()
        if c < 0.40:
            return ("seq", [node(d - 1) for _ in range(rnd.randint(2, 4))])
        if c < 0.60:
            return ("opt", node(d - 1))
        if c < 0.80:
            return ("alt", [node(d - 1), node(d - 1)] + ([("str", "")] if rnd.random() < 0.5 else []))
        if c < 0.88:
            return ("and", node(d - 1))
        if c < 0.94:
            return ("not", node(d - 1))
        return ("group", node(d - 1))

    pro = [("pushlit", rnd.choice(letters)) if rnd.random() < 0.7 else ("push", ("range", "a", "c")) for _ in range(rnd.randint(1, 4))]
    body = [node(rnd.randint(2, 4)) for _ in range(rnd.randint(1, 2))]
    epi = rnd.choice(
        [
            [("popall",), ("eoi",)],
            [("star", ("pop",)), ("eoi",)],
            [("pop",), ("opt", ("pop",)), ("opt", ("pop",)), ("eoi",)],
            [("peekall",), ("popall",), ("eoi",)],
            [("slice", None, None), ("eoi",)],
        ]
    )
    return {"r": ("", ("seq", pro + body + epi))}


# exhaustive small expression trees over the core operators (C03's enumerated stratum)
CORE_TERMINALS = [
    ("str", "a"), ("str", "b"), ("str", "ab"), ("ci", "a"), ("range", "a", "b"), ("any",), ("soi",), ("eoi",), ("builtin", "ASCII_ALPHA_UPPER"),
    ("ref", "n"), ("ref", "s"),
]
CORE_HELPERS = {"n": ("", ("str", "a")), "s": ("_", ("alt", [("str", "b"), ("ref", "n")]))}
_CORE_NULL = {"n": False, "s": False}


def _core_unary(e):
    nn = not nullable(e, lambda n: _CORE_NULL.get(n, True))
    out = [("opt", e), ("and", e), ("not", e), ("max", e, 2)] if nn or True else []
    if nn:
        out += [("star", e), ("plus", e), ("exact", e, 2), ("min", e, 1), ("minmax", e, 1, 2)]
    return out


def core_trees(depth: int) -> list:
    """All expression trees of the given depth bound (depth 1 = terminals)."""
    level = list(CORE_TERMINALS)
    allt = list(level)
    for _ in range(depth - 1):
        nxt = []
        for e in level:
            nxt += _core_unary(e)
        for a in allt:
            for b in allt:
                if a in level or b in level:
                    nxt.append(("seq", [a, b]))
                    nxt.append(("alt", [a, b]))
        level = nxt
        allt = allt + nxt
    return allt


_CORE_CACHE: dict[int, list] = {}


def core_tree_case(depth: int, index: int):
    if depth not in _CORE_CACHE:
        _CORE_CACHE[depth] = core_trees(depth)
    e = _CORE_CACHE[depth][index]
    rules = {"r": ("", e)}
    for nd in walk(e):
        if nd[0] == "ref":
            rules[nd[1]] = CORE_HELPERS[nd[1]]
            if nd[1] == "s":
                rules["n"] = CORE_HELPERS["n"]
    return f"coretree/{depth}/{index}", rules


# "dig below the snapshot" family (bounded-exhaustive): pushes ~ OUTER( pushes ~ direct pops ~ INNER( pops ) ~ fail ) ~ read back
DIG_OUTER = ["alt_first", "opt", "star", "and", "not", "alt_second_after_fail"]
DIG_INNER = ["none", "opt", "alt", "star", "group", "and_then_real"]


def stack_dig_size() -> int:
    return 3 * len(DIG_OUTER) * 3 * 3 * len(DIG_INNER) * 4 * 2


def stack_dig_case(index: int):
    """index -> (label, rules, targeted inputs)."""
    i = index
    before = 1 + i % 3
    i //= 3
    outer = DIG_OUTER[i % len(DIG_OUTER)]
    i //= len(DIG_OUTER)
    inside = i % 3
    i //= 3
    direct = i % 3
    i //= 3
    inner = DIG_INNER[i % len(DIG_INNER)]
    i //= len(DIG_INNER)
    npop = 1 + i % 4
    i //= 4
    fails = i % 2 == 0  # the outer construct fails after the inner one committed (else it succeeds: commits must be kept)
    letters = "abc"
    pro = [("pushlit", letters[k]) for k in range(before)]
    ins = [("pushlit", "xyz"[k]) for k in range(inside)]
    pops = [("drop",) for _ in range(npop)]
    if inner == "none":
        inner_e = ("seq", pops) if len(pops) > 1 else pops[0]
    elif inner == "opt":
        inner_e = ("opt", ("seq", pops) if len(pops) > 1 else pops[0])
    elif inner == "alt":
        inner_e = ("alt", [("seq", pops + [("str", "")]), ("str", "?")])
    elif inner == "star":
        inner_e = ("star", ("seq", [("drop",), ("and", ("str", ""))])) if npop > 1 else ("opt", ("drop",))
    elif inner == "group":
        inner_e = ("group", ("seq", pops) if len(pops) > 1 else pops[0])
    else:
        inner_e = ("seq", [("and", ("seq", pops) if len(pops) > 1 else pops[0]), ("opt", ("seq", pops) if len(pops) > 1 else pops[0])])
    body = ins + [("drop",) for _ in range(direct)] + [inner_e] + ([("str", "!")] if fails else [])
    body_e = ("seq", body) if len(body) > 1 else body[0]
    if outer == "alt_first":
        outer_e = ("alt", [body_e, ("str", "")])
    elif outer == "opt":
        outer_e = ("opt", body_e)
    elif outer == "star":
        outer_e = ("star", ("seq", [body_e, ("str", "-")])) if fails else ("opt", body_e)
    elif outer == "and":
        outer_e = ("and", body_e)
    elif outer == "not":
        outer_e = ("not", body_e)
    else:
        outer_e = ("alt", [("seq", [("pushlit", "q"), ("str", "!")]), body_e, ("str", "")])
    rules = {"r": ("", ("seq", pro + [outer_e, ("popall",), ("eoi",)]))}
    want = "".join(reversed(letters[:before]))
    inputs = ["", want, want[:-1], want + "a", "!" + want, want[::-1], "zyx" + want, "x" + want]
    label = f"stackdig/{before}/{outer}/{inside}/{direct}/{inner}/{npop}/{'fail' if fails else 'commit'}"
    return label, rules, inputs


# ----------------------------------------------------------------------------------------
# scale family: the same few shapes at growing SIZE (rule chains, wide choices, long sequences, deep nesting, many
# rules), because thresholds, iteration caps and recursion budgets only show from some size on.  All sizes stay inside
# the bounds the properties state (text <= 2 kB, nesting <= 40, counts <= 64).

SCALE_SIZES = [1, 2, 3, 8, 16, 19, 20, 21, 32, 33, 40, 64]
SCALE_FAMILIES = [
    "chain_topdown", "chain_bottomup", "wide_choice", "wide_choice_refs", "long_seq", "nested_groups", "nested_opt", "prefix_chain", "postfix_stack",
    "many_rules_choice", "deep_seq_choice", "tag_chain", "counted_chain", "wide_until", "recursion_depth", "paren_depth",
]
SCALE_DEPTHS = {1: 5, 2: 30, 3: 59, 8: 61, 16: 99, 19: 100, 20: 101, 21: 120, 32: 150, 33: 199, 40: 250, 64: 300}
SCALE_MODS = ["", "_", "@", "mixed"]


def scale_size() -> int:
    return len(SCALE_FAMILIES) * len(SCALE_SIZES) * len(SCALE_MODS) * 2


def _lit(i: int) -> str:
    return "abc"[i % 3] + "xyz"[(i // 3) % 3] + ("q" if i >= 9 and (i // 9) % 2 else "") + ("w" * (i // 18))


def scale_case(index: int):
    """index -> (label, rules, inputs) or None when the combination is out of bounds / redundant."""
    i = index
    trivia = i % 2 == 1
    i //= 2
    mod = SCALE_MODS[i % len(SCALE_MODS)]
    i //= len(SCALE_MODS)
    n = SCALE_SIZES[i % len(SCALE_SIZES)]
    i //= len(SCALE_SIZES)
    fam = SCALE_FAMILIES[i]

    def m(k: int) -> str:
        return ["", "_", "@", "$", "!"][k % 5] if mod == "mixed" else mod

    rules: dict = {}
    inputs: list[str] = []
    if fam in ("chain_topdown", "chain_bottomup"):
        names = [f"c{k}" for k in range(n)]
        defs = [(names[k], (m(k), ("seq", [("str", "<"), ("ref", names[k + 1]), ("str", ">")]) if k % 4 == 3 else ("ref", names[k + 1]))) for k in range(n - 1)]
        defs.append((names[-1], (m(n - 1), ("alt", [("str", "a"), ("str", "b")]))))
        rules["r"] = ("", ("seq", [("ref", names[0]), ("eoi",)]))
        for nm, d in defs if fam == "chain_topdown" else reversed(defs):
            rules[nm] = d
        w = "a"
        for k in reversed(range(n - 1)):
            if k % 4 == 3:
                w = "<" + w + ">"
        inputs = [w, w.replace("a", "b"), w.replace("a", " a "), w[:-1], w + ">", w.replace("a", "c")]
    elif fam == "wide_choice":
        rules["r"] = (mod if mod != "mixed" else "", ("seq", [("plus", ("group", ("alt", [("str", _lit(k)) for k in range(n)]))), ("eoi",)]))
        inputs = [_lit(0), _lit(n - 1), _lit(n // 2) + _lit(0), _lit(n - 1) + " " + _lit(n - 1), _lit(n), "a", _lit(n - 1)[:-1]]
    elif fam == "wide_choice_refs":
        rules["r"] = ("", ("seq", [("plus", ("group", ("alt", [("ref", f"w{k}") for k in range(n)]))), ("eoi",)]))
        for k in range(n):
            rules[f"w{k}"] = (m(k), ("str", _lit(k)))
        inputs = [_lit(0), _lit(n - 1), _lit(n // 2) + _lit(0), _lit(n - 1) + " " + _lit(n - 1), _lit(n), _lit(n - 1)[:-1]]
    elif fam == "long_seq":
        rules["r"] = (mod if mod != "mixed" else "$", ("seq", [("str", "abc"[k % 3]) for k in range(n)] + [("eoi",)]))
        w = "".join("abc"[k % 3] for k in range(n))
        inputs = [w, " ".join(w), w[:-1], w + "a", w[: n // 2] + "x" + w[n // 2 :], "  ".join(w)]
    elif fam in ("nested_groups", "nested_opt", "prefix_chain", "postfix_stack"):
        if n > 40:
            return None
        if fam == "nested_groups":
            e: tuple = ("alt", [("str", "a"), ("str", "b")])
            for _ in range(n):
                e = ("group", e)
            inputs = ["a", "b", "", "c", "ab"]
        elif fam == "nested_opt":
            e = ("str", "z")
            for k in range(n):
                e = ("opt", ("group", ("seq", [("str", "ab"[k % 2]), e])))
            w = "".join("ab"[k % 2] for k in reversed(range(n)))
            inputs = [w + "z", w, w[: n // 2], "", w + "zz", " ".join(w + "z")]
        elif fam == "prefix_chain":
            e = ("str", "a")
            for k in range(n):
                e = ("not", e) if k % 3 != 2 else ("and", e)
            e = ("seq", [e, ("star", ("any",))])
            inputs = ["a", "b", "", "ab", " a"]
        else:
            e = ("str", "a")
            for k in range(min(n, 12)):
                e = [("opt", e), ("star", ("group", ("seq", [e, ("str", ",")]))), ("exact", e, 1), ("plus", ("group", ("seq", [("str", "("), e, ("str", ")")]))), ("minmax", e, 0, 2)][k % 5]
            inputs = ["", "a", "a,", "(a,)", "((a,))", "a,a,", "(a,a,)(a,)", "( a , )"]
        rules["r"] = (mod if mod != "mixed" else "!", ("seq", [e, ("eoi",)]))
    elif fam == "many_rules_choice":
        rules["r"] = ("", ("seq", [("star", ("group", ("alt", [("ref", f"k{k}") for k in reversed(range(n))]))), ("eoi",)]))
        for k in range(n):
            rules[f"k{k}"] = (m(k), ("seq", [("str", _lit(k)), ("opt", ("str", "!"))]))
        inputs = [_lit(0) + _lit(n - 1), _lit(n - 1) + "!" + _lit(0), _lit(n // 2) + " ! ", "", _lit(n), _lit(0) + "! " + _lit(n - 1) + "!"]
    elif fam == "deep_seq_choice":
        if n > 40:
            return None
        e = ("str", "z")
        for k in range(n):
            e = ("alt", [("seq", [("str", "ab"[k % 2]), ("group", e)]), ("str", "yx"[k % 2])])
        rules["r"] = (mod if mod != "mixed" else "", ("seq", [e, ("eoi",)]))
        w = "".join("ab"[k % 2] for k in reversed(range(n)))
        inputs = [w + "z", w[: n // 2] + "yx"[(n - n // 2 - 1) % 2] if n > 1 else "y", "yx"[(n - 1) % 2], w, w + "zz", " ".join(w + "z")]
    elif fam == "tag_chain":
        rules["r"] = (mod if mod not in ("mixed", "_") else "", ("seq", [("tag", f"t{k}", ("ref", f"g{k % 3}")) for k in range(n)] + [("eoi",)]))
        for k in range(3):
            rules[f"g{k}"] = (m(k + 1) if mod == "mixed" else "", ("str", "abc"[k]))
        w = "".join("abc"[k % 3] for k in range(n))
        inputs = [w, " ".join(w), w[:-1], w + "a", "b" + w[1:]]
    elif fam == "wide_until":
        stops = [_lit(k) for k in range(n)]
        rules["r"] = (mod if mod != "mixed" else "@", ("seq", [("star", ("group", ("seq", [("not", ("group", ("alt", [("str", x) for x in stops]))), ("any",)]))), ("opt", ("str", stops[-1])), ("eoi",)]))
        inputs = ["", "zzzz", "zz zz", "zz" + stops[-1], "z" + stops[0] + "z", stops[n // 2], "zzz" + stops[-1][:-1], "z z " + stops[-1]]
        # stop string on and around power-of-two offsets (windowed or chunked searches)
        inputs += ["z" * k + stops[-1] for k in (255, 256, 1022, 1023, 1024, 1025, 2047, 4095, 4096)] + ["z" * 1023 + stops[0] + "z" * 1023 + stops[-1]]
    elif fam in ("recursion_depth", "paren_depth"):
        # rule-stack depth d: the recursion budget of the interpreter is far beyond these (a few thousand frames)
        d = SCALE_DEPTHS[n]
        if fam == "recursion_depth":
            rules["r"] = ("", ("seq", [("ref", "x"), ("eoi",)]))
            rules["x"] = (m(1) if mod != "_" else "", ("seq", [("str", "x"), ("opt", ("ref", "x"))]))
            inputs = ["x" * d, "x" * (d + 1), "x" * d + "y", " ".join("x" * d), "x" * (d - 1)]
        else:
            rules["r"] = ("", ("seq", [("ref", "p"), ("eoi",)]))
            rules["p"] = (m(1) if mod != "_" else "", ("alt", [("seq", [("str", "("), ("ref", "p"), ("str", ")")]), ("str", "x")]))
            inputs = ["(" * d + "x" + ")" * d, "(" * d + "x" + ")" * (d - 1), "(" * d + ")" * d, "( " * d + "x" + " )" * d, "(" * (d + 1) + "x" + ")" * (d + 1)]
    else:  # counted_chain: counts up to the stated bound of 64
        rules["r"] = (mod if mod != "mixed" else "", ("seq", [("exact", ("str", "a"), n), ("min", ("str", "b"), n // 2), ("max", ("str", "c"), n), ("minmax", ("group", ("seq", [("str", "d"), ("opt", ("str", "e"))])), n // 3, n), ("eoi",)]))
        inputs = ["a" * n + "b" * (n // 2) + "d" * (n // 3), "a" * n + "b" * n + "c" * n + "de" * n, "a" * (n - 1) + "b" * n, "a" * n + "b" * (n // 2) + "c" * (n + 1), " ".join("a" * n + "b" * n) + " d"]
    if trivia:
        rules["WHITESPACE"] = ("_", ("str", " "))
    label = f"scale/{fam}/{n}/{mod or 'n'}/{'ws' if trivia else 'nows'}"
    return label, rules, [x for j, x in enumerate(inputs) if x not in inputs[:j]]


# ----------------------------------------------------------------------------------------
# stack-swap family: inside a backtracking construct, entries that were there BEFORE the construct are dropped, the same
# or another number of entries is pushed (so the depth may come back to what it was), an operation looks at the whole
# stack (PEEK_ALL, POP_ALL, PEEK[..], ...), and the construct fails or commits; afterwards the stack is observed again.
# Anything that remembers the stack by its depth, or journals a bulk removal by the wrong slice, shows here.

SWAP_PROBES = ["none", "peekall", "popall", "peek", "slice_all", "pop", "peekall_twice"]
SWAP_TAILS = ["popall", "peekall_popall", "pop_popall", "slice_popall", "peek_popall", "drop_peekall_popall"]


def stack_swap_size() -> int:
    return 3 * len(DIG_OUTER) * 3 * 3 * len(SWAP_PROBES) * len(SWAP_TAILS) * 2


def stack_swap_case(index: int):
    """index -> (label, rules, targeted inputs)."""
    i = index
    before = 1 + i % 3
    i //= 3
    outer = DIG_OUTER[i % len(DIG_OUTER)]
    i //= len(DIG_OUTER)
    ndrop = 1 + i % 3
    i //= 3
    npush = i % 3
    i //= 3
    probe = SWAP_PROBES[i % len(SWAP_PROBES)]
    i //= len(SWAP_PROBES)
    tail = SWAP_TAILS[i % len(SWAP_TAILS)]
    i //= len(SWAP_TAILS)
    fails = i % 2 == 0
    letters = "abc"
    pro = [("pushlit", letters[k]) for k in range(before)]
    probe_e = {
        "none": [], "peekall": [("peekall",)], "popall": [("popall",)], "peek": [("peek",)], "slice_all": [("slice", None, None)], "pop": [("pop",)],
        "peekall_twice": [("and", ("peekall",)), ("peekall",)],
    }[probe]
    body = [("drop",) for _ in range(ndrop)] + [("pushlit", "xy"[k]) for k in range(npush)] + probe_e + ([("str", "!")] if fails else [])
    body_e = ("seq", body) if len(body) > 1 else body[0]
    if outer == "alt_first":
        outer_e = ("alt", [body_e, ("str", "")])
    elif outer == "opt":
        outer_e = ("opt", body_e)
    elif outer == "star":
        outer_e = ("star", ("seq", [body_e, ("str", "+")]))
    elif outer == "and":
        outer_e = ("and", body_e)
    elif outer == "not":
        outer_e = ("not", body_e)
    else:
        outer_e = ("alt", [("seq", [("pushlit", "q"), ("str", "!")]), body_e, ("str", "")])
    filler = [("star", ("group", ("seq", [("not", ("str", "-")), ("any",)]))), ("str", "-")]
    tail_e = {
        "popall": [("popall",)], "peekall_popall": [("peekall",), ("str", "="), ("popall",)], "pop_popall": [("pop",), ("str", "="), ("popall",)],
        "slice_popall": [("slice", None, None), ("str", "="), ("popall",)], "peek_popall": [("peek",), ("str", "="), ("popall",)],
        "drop_peekall_popall": [("drop",), ("peekall",), ("str", "="), ("popall",)],
    }[tail]
    rules = {"r": ("", ("seq", pro + [outer_e] + filler + tail_e + [("eoi",)]))}
    st0 = list(letters[:before])
    swapped = st0[: max(0, before - ndrop)] + list("xy"[:npush])
    def uniq(xs):
        out: list[str] = []
        for x in xs:
            if x not in out:
                out.append(x)
        return out

    def rev(st):
        return "".join(reversed(st))

    probe_texts = uniq(["", rev(swapped), "".join(swapped[-1:]), rev(st0)])
    seen_texts = uniq(["", rev(st0), rev(swapped), "".join(st0[-1:]), "".join(swapped[-1:]), rev(st0[:-1]), rev(swapped[:-1]), "".join(st0)])
    mids = ["-"] + (["!-"] if fails else []) + ((["+-"] + (["!+-"] if fails else [])) if outer == "star" else [])
    inputs = []
    for a in probe_texts:
        for mid in mids:
            for b in seen_texts:
                for c in ([""] if tail == "popall" else seen_texts):
                    t = a + mid + b + ("" if tail == "popall" else "=" + c)
                    if t not in inputs:
                        inputs.append(t)
    label = f"stackswap/{before}/{outer}/{ndrop}/{npush}/{probe}/{tail}/{'fail' if fails else 'commit'}"
    return label, rules, inputs


# ----------------------------------------------------------------------------------------
# alphabets and inputs


def alphabet(rules: dict, extra: str = "") -> list[str]:
    chars: set[str] = set()
    for _name, (_m, x) in rules.items():
        for n in walk(x):
            k = n[0]
            if k in ("str", "ci", "pushlit"):
                chars.update(n[1])
                if k == "ci":
                    chars.update(n[1].swapcase())
            elif k == "range":
                chars.add(n[1])
                chars.add(n[2])
            elif k == "builtin":
                chars.update({"ASCII_DIGIT": "1", "ASCII_HEX_DIGIT": "f1", "ASCII_ALPHA_UPPER": "A"}.get(n[1], "aA") if n[1] in BUILTINS else BUILTIN_CHARS[n[1]])
            elif k == "newline":
                chars.update("\n\r")
    chars.update(extra)
    if "k" in chars:
        chars.add("\u212a")  # KELVIN SIGN: Unicode case-fold partner of k
    if "s" in chars and "\u00df" not in chars and len(chars) < 6:
        chars.add("\u00df")
    if not chars:
        chars.add("a")
    # one foreign character and one case twin keep the reject side honest
    chars.add("z")
    low = sorted(c for c in chars if c.isalpha() and c.islower())
    if low and not any(c.isupper() for c in chars):
        chars.add(low[0].upper())
    return sorted(chars)


def count_strings(k: int, maxlen: int) -> int:
    return sum(k**i for i in range(maxlen + 1))


def all_strings(alpha: list[str], maxlen: int):
    for L in range(maxlen + 1):
        for t in itertools.product(alpha, repeat=L):
            yield "".join(t)


class Deriver:
    """Random derivations: strings that are likely (not certain) to match."""

    def __init__(self, rules: dict, rnd: random.Random, alpha: list[str], long: bool = False):
        self.rules = rules
        self.r = rnd
        self.alpha = alpha
        self.trivia = [c for c in (" ", "#", "\t") if c in alpha]
        self.budget = 0
        self.long = long  # long mode: repetitions run for dozens of iterations (inputs of hundreds to thousands of characters)
        self.refdepth = 0

    def derive(self, rule: str) -> str:
        self.budget = 4000 if self.long else 60
        self.stack: list[str] = []
        self.refdepth = 0
        return self.ev(("ref", rule))

    def tv(self) -> str:
        if self.trivia and self.r.random() < 0.3:
            return self.r.choice(self.trivia) * self.r.randint(1, 2)
        return ""

    MAXLEN = 8000

    def ev(self, e) -> str:
        out = self._ev(e)
        if len(out) > self.MAXLEN:
            # PUSH(.. PEEK_ALL ..) inside a repetition doubles the text with every iteration: stop deriving
            self.budget = -1
            return out[: self.MAXLEN]
        return out

    def _ev(self, e) -> str:  # noqa: PLR0911, PLR0912
        r = self.r
        self.budget -= 1
        if self.budget < 0:
            return ""
        k = e[0]
        if k == "str":
            return e[1]
        if k == "ci":
            return "".join(c.swapcase() if r.random() < 0.5 else c for c in e[1])
        if k == "range":
            cands = [c for c in self.alpha if e[1] <= c <= e[2]] or [e[1]]
            return r.choice(cands)
        if k == "builtin":
            return r.choice(BUILTIN_CHARS.get(e[1], "aAb"))
        if k == "any":
            return r.choice(self.alpha)
        if k == "newline":
            return r.choice(["\n", "\n", "\r\n", "\r"])
        if k in ("soi", "eoi", "and", "not", "drop"):
            if k == "drop" and self.stack:
                self.stack.pop()
            return ""
        if k == "ref":
            if e[1] not in self.rules or self.refdepth > 12:
                return ""
            self.refdepth += 1
            out = self.ev(self.rules[e[1]][1])
            self.refdepth -= 1
            return out
        if k == "seq":
            out = ""
            for i, x in enumerate(e[1]):
                if i:
                    out += self.tv()
                out += self.ev(x)
            return out
        if k == "alt":
            return self.ev(r.choice(e[1]))
        if k == "opt":
            return self.ev(e[1]) if r.random() < 0.6 else ""
        if k in ("group",):
            return self.ev(e[1])
        if k == "tag":
            return self.ev(e[2])
        if k in ("star", "plus", "exact", "min", "max", "minmax"):
            big = r.choice([25, 70, 200]) if self.long and self.refdepth <= 2 else 0
            if k == "star":
                n = big or r.choice([0, 1, 2, 3])
            elif k == "plus":
                n = big or r.choice([1, 2, 3])
            elif k == "exact":
                n = e[2]
            elif k == "min":
                n = e[2] + (big or r.choice([0, 1, 2]))
            elif k == "max":
                n = r.randint(0, e[2])
            else:
                n = r.randint(e[2], e[3])
            parts = [self.ev(e[1]) for _ in range(n)]
            out = ""
            for i, s in enumerate(parts):
                if i:
                    out += self.tv()
                out += s
            return out
        if k == "push":
            s = self.ev(e[1])
            self.stack.append(s)
            return s
        if k == "pushlit":
            self.stack.append(e[1])
            return ""
        if k == "peek":
            return self.stack[-1] if self.stack else ""
        if k == "pop":
            return self.stack.pop() if self.stack else ""
        if k == "peekall":
            return "".join(reversed(self.stack))
        if k == "popall":
            s = "".join(reversed(self.stack))
            self.stack.clear()
            return s
        if k == "slice":
            try:
                return "".join(self.stack[slice(e[1], e[2])])
            except Exception:  # noqa: BLE001
                return ""
        raise ValueError(k)


def mutate(s: str, rnd: random.Random, alpha: list[str]) -> str:
    if not s:
        return rnd.choice(alpha)
    i = rnd.randrange(len(s) + 1)
    c = rnd.random()
    if c < 0.3 and i < len(s):
        return s[:i] + s[i + 1 :]
    if c < 0.6:
        return s[:i] + rnd.choice(alpha) + s[i:]
    if c < 0.8 and i < len(s):
        return s[:i] + rnd.choice(alpha) + s[i + 1 :]
    if c < 0.9:
        return s[:i]
    return s + s[max(0, i - 1) :]


def long_inputs(rules: dict, start_rule: str, rnd: random.Random, alpha: list[str], n: int) -> list[str]:
    """n long derivations (and one mutant) of at least 120 characters, if the grammar can produce them."""
    d = Deriver(rules, rnd, alpha, long=True)
    out: list[str] = []
    for _ in range(n * 4):
        s = d.derive(start_rule)
        if 120 <= len(s) <= 6000 and s not in out:
            out.append(s)
            if len(out) >= n:
                break
    if out:
        s = out[0]
        i = rnd.randrange(len(s))
        out.append(s[:i] + rnd.choice(alpha) + s[i + 1 :])
    return out


def inputs_for(rules: dict, start_rule: str, rnd: random.Random, cap: int, maxlen: int, extra_alpha: str = "") -> tuple[list[str], dict]:
    """Inputs for one grammar: exhaustive short strings, random longer ones, derivations + mutants."""
    alpha = alphabet(rules, extra_alpha)
    info = {"alphabet": "".join(alpha)}
    k = len(alpha)
    if count_strings(k, maxlen) <= cap:
        info["exhaustive_len"] = maxlen
        out = list(all_strings(alpha, maxlen))
        d = Deriver(rules, rnd, alpha)
        seen = set(out)
        for _ in range(min(20, cap // 10)):
            s = d.derive(start_rule)
            for cand in (s, mutate(s, rnd, alpha)):
                if cand not in seen and len(cand) <= 24:
                    seen.add(cand)
                    out.append(cand)
        return out, info
    l0 = 0
    while count_strings(k, l0 + 1) <= cap // 2:
        l0 += 1
    info["exhaustive_len"] = l0
    out = list(all_strings(alpha, l0))
    seen = set(out)
    d = Deriver(rules, rnd, alpha)
    tries = 0
    while len(out) < cap and tries < cap * 4:
        tries += 1
        c = rnd.random()
        if c < 0.4:
            s = "".join(rnd.choice(alpha) for _ in range(rnd.randint(l0 + 1, maxlen + 2)))
        elif c < 0.7:
            s = d.derive(start_rule)
        else:
            s = mutate(d.derive(start_rule), rnd, alpha)
        if s not in seen and len(s) <= 30:
            seen.add(s)
            out.append(s)
    return out, info


# ----------------------------------------------------------------------------------------
# context matrix: construct kind x enclosing context x rule modifier x trivia configuration

HELPERS = {
    "n": ("", ("str", "a")),
    "s": ("_", ("alt", [("str", "b"), ("ref", "n")])),
    "at": ("@", ("seq", [("str", "a"), ("ref", "n")])),
    "cp": ("$", ("seq", [("str", "a"), ("ref", "n")])),
    "na": ("!", ("seq", [("str", "a"), ("ref", "n")])),
    "dp": ("", ("seq", [("ref", "cp"), ("opt", ("str", "b"))])),
    "am": ("@", ("seq", [("ref", "dp"), ("str", "-"), ("ref", "cp")])),
    "am2": ("@", ("seq", [("ref", "cp"), ("str", "-"), ("ref", "dp"), ("opt", ("seq", [("str", "-"), ("ref", "na")]))])),
    "am3": ("@", ("seq", [("ref", "n"), ("ref", "dp"), ("ref", "at"), ("ref", "cp")])),
}

CONSTRUCTS: list[tuple[str, tuple, bool]] = [
    # name, expression, needs_stack
    ("str", ("str", "a"), False),
    ("str2", ("str", "ab"), False),
    ("ci", ("ci", "ab"), False),
    ("range", ("range", "a", "b"), False),
    ("builtin", ("builtin", "ASCII_ALPHA_LOWER"), False),
    ("any", ("any",), False),
    ("eoi", ("eoi",), False),
    ("newline", ("newline",), False),
    ("ref_normal", ("ref", "n"), False),
    ("ref_silent", ("ref", "s"), False),
    ("ref_atomic", ("ref", "at"), False),
    ("ref_compound", ("ref", "cp"), False),
    ("ref_nonatomic", ("ref", "na"), False),
    ("ref_atomic_mixed_depth", ("ref", "am"), False),
    ("ref_atomic_mixed_depth2", ("ref", "am2"), False),
    ("ref_atomic_mixed_depth3", ("ref", "am3"), False),
    ("seq", ("seq", [("str", "a"), ("str", "b")]), False),
    ("seq_refs", ("seq", [("ref", "n"), ("ref", "s")]), False),
    ("seq_zero_width_tail", ("seq", [("str", "a"), ("opt", ("str", "b"))]), False),
    ("alt", ("alt", [("str", "a"), ("str", "b")]), False),
    ("alt_prefix", ("alt", [("str", "a"), ("str", "ab")]), False),
    # choices of one-character literals that are metacharacters of the regex dialect squashed choices are compiled to
    ("alt_regex_meta", ("alt", [("str", "["), ("str", "]"), ("str", "-"), ("str", "^"), ("str", "\\")]), False),
    ("alt_regex_meta2", ("alt", [("str", "&"), ("str", "~"), ("str", "|"), ("str", "("), ("str", "."), ("range", "*", "+")]), False),
    ("alt_seq", ("alt", [("seq", [("ref", "n"), ("str", "b")]), ("ref", "n")]), False),
    ("opt", ("opt", ("str", "a")), False),
    ("star", ("star", ("str", "a")), False),
    ("star_ref", ("star", ("ref", "n")), False),
    ("plus", ("plus", ("str", "a")), False),
    ("plus_ref", ("plus", ("ref", "n")), False),
    ("exact", ("exact", ("str", "a"), 2), False),
    ("exact_ref", ("exact", ("ref", "n"), 2), False),
    ("min", ("min", ("ref", "n"), 1), False),
    ("min0", ("min", ("str", "a"), 0), False),
    ("max", ("max", ("ref", "n"), 2), False),
    ("minmax", ("minmax", ("ref", "n"), 1, 2), False),
    ("minmax0", ("minmax", ("str", "a"), 0, 2), False),
    ("and", ("seq", [("and", ("str", "a")), ("any",)]), False),
    ("not", ("seq", [("not", ("str", "b")), ("any",)]), False),
    ("not_ref", ("seq", [("not", ("ref", "n")), ("any",)]), False),
    ("skip_until", ("star", ("group", ("seq", [("not", ("group", ("alt", [("str", "b"), ("str", "ab")]))), ("any",)]))), False),
    ("group_tagged", ("tag", "t", ("ref", "n")), False),
    ("push_pop", ("seq", [("push", ("range", "a", "b")), ("pop",)]), True),
    ("push_peek", ("seq", [("push", ("str", "a")), ("peek",), ("drop",)]), True),
    ("pushlit_pop", ("seq", [("pushlit", "a"), ("pop",)]), True),
    ("pop_bare", ("pop",), True),
    ("peek_bare", ("peek",), True),
    ("drop_bare", ("drop",), True),
    ("peekall", ("seq", [("push", ("str", "a")), ("push", ("str", "b")), ("peekall",), ("popall",)]), True),
    ("popall_bare", ("popall",), True),
    ("peekall_bare", ("peekall",), True),
    ("slice", ("seq", [("push", ("str", "a")), ("push", ("str", "b")), ("slice", 0, 1), ("slice", None, None)]), True),
    ("slice_bare", ("slice", None, None), True),
    ("ci_sharp_s_choice", ("alt", [("ci", "\u00df"), ("range", "a", "b")]), False),
    ("ci_kelvin_choice", ("alt", [("ci", "k"), ("str", "x")]), False),
    ("ci_long_choice", ("alt", [("ci", "ss"), ("ci", "fi"), ("str", "xy")]), False),
    ("push_empty_peek", ("seq", [("push", ("opt", ("str", "a"))), ("peek",), ("str", "b"), ("pop",)]), True),
    ("push_empty_pop", ("seq", [("push", ("star", ("str", "a"))), ("str", "b"), ("pop",), ("opt", ("peek",))]), True),
    ("push_empty_peekall", ("seq", [("push", ("alt", [("str", "ab"), ("str", "")])), ("pushlit", "b"), ("peekall",), ("slice", 0, 1), ("popall",)]), True),
    ("push_choice_undo", ("seq", [("pushlit", "a"), ("alt", [("seq", [("opt", ("pop",)), ("str", "z")]), ("seq", [("str", "a"), ("pop",)])])]), True),
]


def _ctx_list():
    A, B, X, Y = ("str", "a"), ("str", "b"), ("str", "x"), ("str", "y")
    return [
        ("bare", lambda k: k, False),
        ("seq_first", lambda k: ("seq", [k, Y]), False),
        ("seq_last", lambda k: ("seq", [X, k]), False),
        ("seq_middle", lambda k: ("seq", [X, k, Y]), False),
        ("choice_first", lambda k: ("alt", [k, A]), False),
        ("choice_later", lambda k: ("alt", [("str", "xx"), k]), False),
        ("choice_first_then_more", lambda k: ("alt", [("seq", [k, X]), ("seq", [k, Y])]), False),
        ("optional", lambda k: ("seq", [("opt", k), Y]), False),
        ("star", lambda k: ("star", k), True),
        ("plus", lambda k: ("plus", k), True),
        ("exact", lambda k: ("exact", k, 2), True),
        ("min", lambda k: ("min", k, 1), True),
        ("max", lambda k: ("max", k, 2), True),
        ("minmax", lambda k: ("minmax", k, 1, 2), True),
        ("star_then", lambda k: ("seq", [("star", k), Y]), True),
        ("pos_pred", lambda k: ("seq", [("and", k), ("star", ("any",))]), False),
        ("neg_pred", lambda k: ("seq", [("not", k), ("star", ("any",))]), False),
        ("push", lambda k: ("seq", [("push", k), ("opt", ("pop",))]), False),
        ("group", lambda k: ("group", k), False),
        ("star_of_seq", lambda k: ("star", ("seq", [X, k])), False),
        ("opt_of_seq_fail_late", lambda k: ("seq", [("opt", ("seq", [k, X])), ("star", ("any",))]), False),
    ]


CONTEXTS = _ctx_list()
MODIFIERS = ["", "_", "@", "$", "!"]
TRIVIA_CFGS = [
    ("none", {}),
    ("ws", {"WHITESPACE": ("_", ("str", " "))}),
    ("ws_loud", {"WHITESPACE": ("", ("str", " "))}),
    ("cm", {"COMMENT": ("_", ("seq", [("str", "#"), ("star", ("range", "a", "c"))]))}),
    ("ws_cm", {"WHITESPACE": ("_", ("alt", [("str", " "), ("str", "\t")])), "COMMENT": ("_", ("str", "#"))}),
    ("ws2", {"WHITESPACE": ("_", ("seq", [("str", " "), ("str", " ")]))}),
    ("ws_cm_loud", {"WHITESPACE": ("", ("str", " ")), "COMMENT": ("", ("str", "#"))}),
]


def matrix_size() -> int:
    return len(CONSTRUCTS) * len(CONTEXTS) * len(MODIFIERS) * len(TRIVIA_CFGS)


def matrix_case(index: int):
    """index -> (label, rules) or None when the combination is not well-formed."""
    nk, nx, nm, nt = len(CONSTRUCTS), len(CONTEXTS), len(MODIFIERS), len(TRIVIA_CFGS)
    ki = index % nk
    xi = (index // nk) % nx
    mi = (index // (nk * nx)) % nm
    ti = (index // (nk * nx * nm)) % nt
    kname, kexpr, _needs_stack = CONSTRUCTS[ki]
    xname, xfun, needs_nonnull = CONTEXTS[xi]
    mod = MODIFIERS[mi]
    tname, trules = TRIVIA_CFGS[ti]
    helper_null = {"n": False, "s": False, "at": False, "cp": False, "na": False, "dp": False, "am": False, "am2": False, "am3": False}
    if needs_nonnull and nullable(kexpr, lambda n: helper_null.get(n, True)):
        return None
    body = xfun(kexpr)
    if any(n[0] == "tag" for n in walk(body)) and xname in ("pos_pred", "neg_pred", "star", "plus", "exact", "min", "max", "minmax", "star_then"):
        return None  # keep tags where the grammar syntax allows them without extra parens
    rules = {"r": (mod, body)}
    used = {n[1] for n in walk(body) if n[0] == "ref"}
    todo = list(used)
    while todo:
        h = todo.pop()
        if h in rules or h not in HELPERS:
            continue
        rules[h] = HELPERS[h]
        for n in walk(HELPERS[h][1]):
            if n[0] == "ref" and n[1] not in rules:
                todo.append(n[1])
    rules.update(trules)
    label = f"{kname}/{xname}/{mod or 'normal'}/{tname}"
    return label, rules
