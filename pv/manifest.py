"""Regenerates /verif/MANIFEST.json from the table below:  /venv/bin/python -m pv.manifest"""

from __future__ import annotations

import json
import os

VERIF = os.path.dirname(os.path.dirname(os.path.abspath(__file__)))

BASELINE_OFF = (
    "cd /repo && env -u PYTHON_PEST_VERIF /venv/bin/python -m pytest -ra -q -p no:cacheprovider "
    "--timeout=900 --continue-on-collection-errors"
)

# id -> (technique, level text, level note, design ref)
CHECKS: dict[str, tuple[str, str, str, str]] = {
    "C09": (
        "history + executable full-copy model, exhaustive bounded histories, state compared after every step",
        "Every operation history up to the length bound (all 6^L stack and counter histories, all well-nested ParserState "
        "histories) plus seeded random histories of length 200 is executed on the real Stack / SnapshottingInt / ParserState "
        "and on a full-copy reference; the whole visible state is compared after every step. Exhaustive inside the bound, "
        "sampled beyond it; a bounded exploration, not a proof for unbounded histories.",
        "trusted: the 40-line full-copy model in pv/checks/c09.py; ParserState histories are well-nested as in real parses",
        "DESIGN.md 4/C09",
    ),
    "C14": (
        "reference-model monitor over exhaustively enumerated texts, offsets and spans",
        "Every text over {a,b,\\n} (and over {e-acute, astral char, \\n}) up to the length bound, every offset 0..len and every span "
        "a<=b is pushed through Position/Span/Pair utilities and compared with a 2-line count/rfind reference; long and non-ASCII "
        "texts are sampled. Exhaustive inside the bound only.",
        "trusted: ref_line_col/ref_lines in pv/checks/c14.py; line breaks are '\\n' only, as the statement says",
        "DESIGN.md 4/C14",
    ),
    "C18": (
        "differential monitor: binding-power reference + algorithm-independent tree-constraint validator over exhaustive and random token streams",
        "For seeded operator tables all well-formed streams up to the length bound (exhaustive per table) and random longer streams "
        "are parsed by PrattParser.parse_expr; each tree is compared with a binding-power reference after pest's pratt_parser.rs and "
        "independently validated against local precedence/associativity constraints. Bounded exploration of tables and streams.",
        "trusted: ref_parse + validate_tree in pv/checks/c18.py (they cross-check each other on every case; disagreement = inconclusive)",
        "DESIGN.md 4/C18",
    ),
    "C03": (
        "reference-model monitor: real parses in 4 execution modes compared with an executable reference PEG semantics",
        "Seeded random well-formed grammars over the core operators and the trivia-free slice of a construct x context matrix are "
        "loaded by the real front end and run (interpreter, optimized interpreter, both generated modules) on ALL strings over the "
        "grammar's alphabet up to a length bound plus derivation-guided longer inputs; every outcome and tree is compared with "
        "pv/ref/refpeg.py (functional evaluator, immutable state). Held = no disagreement on the cases explored; not a proof.",
        "trusted: pv/ref/refpeg.py as pest's semantics (bounded repetitions evaluated as pest's unrolled sequences); the reference "
        "abstains where the statement is silent; grammars the front end rejects are counted as abstentions (C10's subject)",
        "DESIGN.md 4/C03",
    ),
    "C04": (
        "reference-model monitor: trivia placement, atomicity and pair visibility compared with the reference evaluator in 4 modes",
        "As C03 with WHITESPACE/COMMENT (silent or not, single- and multi-element bodies, both/one/none) and _ @ $ ! rules nested "
        "through rule calls; the full construct x context x modifier x trivia-configuration matrix is sampled (quick) or enumerated "
        "(thorough). Trees are compared, so every trivia pair, every given-back trivia run and every hidden/visible inner pair is judged.",
        "trusted: pv/ref/refpeg.py (skip between sequence elements and inside further iterations of e*, only when non-atomic; "
        "@ hides pairs except under nested $/!); abstains when trivia or an iteration matches empty",
        "DESIGN.md 4/C04",
    ),
    "C05": (
        "reference-model monitor with immutable stack + online full-copy monitor (T1) on every checkpoint/restore of every parse",
        "Random grammars and the stack slice of the construct x context matrix mix the seven stack operations with every "
        "backtracking construct; outcomes and trees in 4 modes are compared with the reference evaluator whose stack is immutable "
        "(undo is structural). In addition a monitored ParserState shadows every checkpoint with a full copy and checks every restore "
        "and ok of every parse, and no exception other than PestParsingError may escape.",
        "trusted: pv/ref/refpeg.py stack semantics (PEEK/POP/DROP on empty stack fail, failing ops change nothing); abstains on "
        "out-of-range PEEK[a..b] bounds",
        "DESIGN.md 4/C05",
    ),
}

PENDING_REASON = "check not built yet in this revision of /verif (runtime monitor planned, see DESIGN.md section 4)"


def build() -> dict:
    with open(os.path.join(VERIF, "properties.jsonl"), encoding="utf-8") as fd:
        ids = [json.loads(line)["id"] for line in fd if line.strip()]
    checks = []
    na = []
    for pid in ids:
        if pid not in CHECKS:
            na.append({"property_id": pid, "reason": PENDING_REASON})
            continue
        technique, text, note, ref = CHECKS[pid]
        checks.append(
            {
                "property_id": pid,
                "quick_cmd": f"./check {pid} --tier quick",
                "thorough_cmd": f"./check {pid} --tier thorough",
                "evidence_file": f"/verif/evidence/{pid}.json",
                "replay_cmd_template": f"./check {pid} --replay {{path}}",
                "engine": "pv",
                "level_claimed": {"category": "exploration", "text": text, "design_ref": ref},
                "level_note": note,
                "technique": technique,
            }
        )
    return {
        "version": 1,
        "setup_cmd": "./check selftest",
        "hooks": {
            "guard": "PYTHON_PEST_VERIF",
            "enable": "no source hooks: all instrumentation is applied from the harness by subclassing / rebinding "
            "(monitored ParserState, Stack, parse_trivia wrappers, sys.monitoring); ./check exports PYTHON_PEST_VERIF=1 "
            "for uniformity but the repository never reads it",
            "baseline_off_cmd": BASELINE_OFF,
            "source_commits": [],
            "add_only": True,
        },
        "engines": [
            {
                "name": "pv",
                "path": "/verif/pv",
                "serves_properties": sorted(CHECKS),
                "kind_free_text": "runtime monitoring: the real code of /repo's working tree is executed under generated / "
                "exhaustive-bounded workloads; oracles are executable reference models, metamorphic relations and state "
                "monitors; sharded over subprocess workers with watchdogs",
            }
        ],
        "checks": checks,
        "not_applicable": na,
        "notes": "Exit codes: 0 held, 1 violated (VIOLATION line + replay file), 2 inconclusive (watchdog, oracle self-test "
        "failure or a deciding monitor that observed too few events). Known findings are in KNOWN_FINDINGS.json.",
    }


def main() -> None:
    m = build()
    with open(os.path.join(VERIF, "MANIFEST.json"), "w", encoding="utf-8") as fd:
        json.dump(m, fd, indent=1)
        fd.write("\n")
    print(f"MANIFEST.json: {len(m['checks'])} checks, {len(m['not_applicable'])} not_applicable")


if __name__ == "__main__":
    main()
