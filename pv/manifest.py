"""Regenerates /verif/MANIFEST.json from the table below:  /venv/bin/python -m pv.manifest"""

from __future__ import annotations

import json
import os

VERIF = os.path.dirname(os.path.dirname(os.path.abspath(__file__)))

BASELINE_OFF = (
    "cd /repo && env -u PYTHON_PEST_VERIF /venv/bin/python -m pytest -ra -q -p no:cacheprovider "
    "--timeout=900 --continue-on-collection-errors"
)

# id -> (technique, level text, level note, design ref)
CHECKS: dict[str, tuple[str, str, str, str]] = {
    "C09": (
        "history + executable full-copy model, exhaustive bounded histories, state compared after every step",
        "Every operation history up to the length bound (all 6^L stack and counter histories, all well-nested ParserState "
        "histories) plus seeded random histories of length 200 is executed on the real Stack / SnapshottingInt / ParserState "
        "and on a full-copy reference; the whole visible state is compared after every step. Exhaustive inside the bound, "
        "sampled beyond it; a bounded exploration, not a proof for unbounded histories.",
        "trusted: the 40-line full-copy model in pv/checks/c09.py; ParserState histories are well-nested as in real parses",
        "DESIGN.md 4/C09",
    ),
    "C14": (
        "reference-model monitor over exhaustively enumerated texts, offsets and spans",
        "Every text over {a,b,\\n} (and over {e-acute, astral char, \\n}) up to the length bound, every offset 0..len and every span "
        "a<=b is pushed through Position/Span/Pair utilities and compared with a 2-line count/rfind reference; long and non-ASCII "
        "texts are sampled. Exhaustive inside the bound only.",
        "trusted: ref_line_col/ref_lines in pv/checks/c14.py; line breaks are '\\n' only, as the statement says",
        "DESIGN.md 4/C14",
    ),
    "C18": (
        "differential monitor: binding-power reference + algorithm-independent tree-constraint validator over exhaustive and random token streams",
        "For seeded operator tables all well-formed streams up to the length bound (exhaustive per table) and random longer streams "
        "are parsed by PrattParser.parse_expr; each tree is compared with a binding-power reference after pest's pratt_parser.rs and "
        "independently validated against local precedence/associativity constraints. Bounded exploration of tables and streams.",
        "trusted: ref_parse + validate_tree in pv/checks/c18.py (they cross-check each other on every case; disagreement = inconclusive)",
        "DESIGN.md 4/C18",
    ),
    "C03": (
        "reference-model monitor: real parses in 4 execution modes compared with an executable reference PEG semantics",
        "All 342 expression trees of depth <= 2 over the core terminals (a seeded sample of depth 3 in the thorough tier), seeded random "
        "well-formed grammars over the core operators (a quarter under hostile rule names such as SKIP, class, _x_) and the trivia-free "
        "slice of a construct x context matrix, and a scale family (16 shapes at 12 sizes up to the stated bounds, rule-stack depth up to 300) "
        "are loaded by the real front end and run (interpreter, optimized interpreter, both generated modules) on ALL strings over the "
        "grammar's alphabet up to a length bound plus derivation-guided longer inputs; every outcome and tree is compared with "
        "pv/ref/refpeg.py (functional evaluator, immutable state). Held = no disagreement on the cases explored; not a proof.",
        "trusted: pv/ref/refpeg.py as pest's semantics (bounded repetitions evaluated as pest's unrolled sequences); the reference "
        "abstains where the statement is silent; grammars the front end rejects are counted as abstentions (C10's subject)",
        "DESIGN.md 4/C03",
    ),
    "C04": (
        "reference-model monitor: trivia placement, atomicity and pair visibility compared with the reference evaluator in 4 modes",
        "As C03 with WHITESPACE/COMMENT (silent or not, single- and multi-element bodies, bodies that reference other rules, explicit "
        "references to the trivia rules, both/one/none) and _ @ $ ! rules nested "
        "through rule calls; the full construct x context x modifier x trivia-configuration matrix is sampled (quick) or enumerated "
        "(thorough). Trees are compared, so every trivia pair, every given-back trivia run and every hidden/visible inner pair is judged.",
        "trusted: pv/ref/refpeg.py (skip between sequence elements and inside further iterations of e*, only when non-atomic; "
        "@ hides pairs except under nested $/!); abstains when trivia or an iteration matches empty",
        "DESIGN.md 4/C04",
    ),
    "C05": (
        "reference-model monitor with immutable stack + online full-copy monitor (T1) on every checkpoint/restore of every parse",
        "Random grammars, seeded stack scenarios, two bounded-exhaustive families (stack-dig: 7 776 grammars that pop below an enclosing "
        "frame's level inside a committed inner frame; stack-swap: 13 608 grammars that drop old entries, push new ones, look at the whole "
        "stack and then fail or commit, with targeted inputs) and the stack slice of the construct x context matrix mix the seven stack "
        "operations with every backtracking construct; outcomes and trees in 4 modes are compared with the reference evaluator whose stack is immutable "
        "(undo is structural). In addition a monitored ParserState shadows every checkpoint with a full copy and checks every restore "
        "and ok of every parse, and no exception other than PestParsingError may escape.",
        "trusted: pv/ref/refpeg.py stack semantics (PEEK/POP/DROP on empty stack fail, failing ops change nothing); abstains on "
        "out-of-range PEEK[a..b] bounds",
        "DESIGN.md 4/C05",
    ),
    "C01": (
        "differential monitor: generated module vs interpreter on the same Parser object, plus byte comparison of repeated generate()",
        "For random grammars of every profile and the construct x context x modifier x trivia matrix, with optimizer None and default: "
        "generate() twice (+ once more after parsing) must be byte-identical, the source must compile and execute, and for every rule as "
        "start rule, all short inputs and all start positions of short inputs the generated parse() must return exactly the interpreter's "
        "tree (names, spans, nesting, tags) or fail with the same furthest position. Bounded exploration.",
        "relative property: the interpreter is the oracle; cases where it raises or where the reference evaluator finds undefined behaviour are skipped",
        "DESIGN.md 4/C01",
    ),
    "C02": (
        "differential monitor: optimized (default, single passes, random pipelines) vs unoptimized results computed before any optimizer ran in the process",
        "Random grammars biased to the rewrite patterns and the construct matrix are parsed unoptimized (phase U of each worker process) "
        "and then under the default pipeline and seeded configurations drawn from DEFAULT_OPTIMIZER_PASSES (each pass alone, subsets, "
        "permutations, repetitions, one pass listed six times), interpreted and generated; outcome and tree must be equal. An optimizer-target "
        "family (14 shapes the passes pattern-match on x ordered pairs of 11 literal-like operands x 3 modifiers x with/without trivia) runs "
        "under ordered selections of the passes (all 325 in the thorough tier; the evidence lists the selections run). The evidence counts "
        "how often each pass actually rewrote something. Bounded exploration.",
        "relative property; failure positions are not compared; fresh Optimizer objects per configuration",
        "DESIGN.md 4/C02",
    ),
    "C06": (
        "invariant monitor on every successful parse of the engine workload and of the bundled grammars on corpus + mutants",
        "Every Pairs object returned by any mode for generated grammars (all profiles, every start rule, start positions) and for the "
        "bundled real-world grammars (shipped documents, inputs harvested from the repository's own tests, mutants) is walked: span/text "
        "consistency, child order and containment, legal names and tags, balanced monotone tokens(), flatten() pre-order, single root at "
        "start_pos, dump()/dumps() agreement with an independent renderer.",
        "no reference model needed; names/tags are taken from the printed grammar (generated) or the loaded rule trees (bundled)",
        "DESIGN.md 4/C06",
    ),
    "C07": (
        "exception-type monitor at the API boundary + logical step budget + repeat-call comparison over a hostile workload",
        "Hostile workload (stack operations weighted up, counts of zero, zero-width stack repetitions, out-of-range PEEK slices, every rule "
        "as start rule, empty input, all short inputs = all truncations, bare stack ops in every context, the stack-dig and stack-swap "
        "families, the scale family incl. rule-stack depth up to 300 and stop sets of up to 64 strings, bundled grammars on truncations and mutants) in 4 modes: anything other than Pairs or "
        "PestParsingError escaping, a step budget of 1000 x reference steps + 1e5 exceeded, or an unequal second call is a violation.",
        "well-formed grammars by construction; rule depth beyond 350 / RecursionError are abstentions; termination is judged in logical steps",
        "DESIGN.md 4/C07",
    ),
    "C13": (
        "invariant monitor on every PestParsingError (range, names, rendering, line:col vs count/rfind reference) + online fail() position monitor",
        "Every failure of the engine workload (inputs with newlines and non-ASCII, every start position of short inputs, 4 modes) and of "
        "the bundled grammars on multi-line mutated corpora is checked: furthest_pos in {-1} U [start_pos, len], names are rules or "
        "built-ins, all renderers run, printed line:col and source line are those of the position.",
        "line:col and source line are accepted under either of two conventions (lines end at '\\n' only, or at every str.splitlines() "
        "boundary with '\\r\\n' as one break; a scan model written for the check); the sentinel -1 is not judged for line:col",
        "DESIGN.md 4/C13",
    ),
    "C16": (
        "metamorphic monitor: parse(t, start_pos=k) vs parse(t[k:]) shifted, and prefix replacement, for all k, each mode against itself",
        "SOI-free random grammars of all profiles and the matrix, and SOI-free rules of the bundled grammars: for every input and every k "
        "the result at start_pos=k must equal the shifted suffix result (trees, failure position and expected sets) and must not change "
        "when the characters before k are replaced (by ASCII characters, by non-ASCII characters and by line breaks).",
        "relative property; grammars / rules that can reach SOI are excluded by a static check",
        "DESIGN.md 4/C16",
    ),
    "C10": (
        "differential monitor against an executable oracle: pest's own meta-grammar run by the reference PEG evaluator, converted like pest_meta's consume_rules",
        "Derivations of the meta-grammar with trivia at every legal place, printed random ASTs under random formatting, the bundled "
        ".pest files, character/token mutants of all of these and a fact table are each classified by the oracle and loaded by "
        "Parser.from_grammar; acceptance must agree and, when both accept, names, modifiers, docs and the whole expression structure "
        "must be equal. Two recorded findings (tag placement) are accepted only through an exact controlled normalisation.",
        "trusted: pv/ref/meta_literal.py == tests/grammars/meta.pest (fix-point self-test at every run), pv/ref/metafront.py, pv/adapter.py; "
        "abstains on non-scalar \\u{} values, counts > 64, nesting > 40, redefinition of core built-ins",
        "DESIGN.md 4/C10",
    ),
    "C11": (
        "exception-type and message monitor over exhaustive truncations, pointwise mutations and generated texts",
        "Every prefix of every bundled grammar (stride in quick), prefixes of generated grammars, every single-character edit at "
        "every offset of small grammars, derivations, printed ASTs, mutants, soups, edge texts and the printed grammars of the scale and "
        "optimizer-target families (with empty literals as operands) are loaded with and without the "
        "optimizer: only Parser or PestGrammarError may come out, str() must render and the printed line:col must exist in the text. "
        "Termination is judged in logical steps: more than 20 000 function entries inside pest/ per grammar character + 1e6 (sys.monitoring "
        "PY_START; honest loads need at most ~2 200 per character) within the stated bounds is a violation.",
        "RecursionError / MemoryError / a blown step budget / the 60 s wall-clock guard beyond 2 kB, nesting 40 or counts 64 are abstentions (stated bounds)",
        "DESIGN.md 4/C11",
    ),
    "C12": (
        "exhaustive membership sweeps: one parse('r', chr(c)) per code point per mode against set predicates",
        "All 1,114,112 code points x 4 modes for every ASCII built-in, NEWLINE and ANY, and for a family of ranges, literals and "
        "optimizer-merged choices (all fully swept in the thorough tier); Unicode property rules by cross-mode agreement, the general-category / XID / "
        "case rules also against CPython's tables on version-stable code points, every Unicode rule also inside squashable choices and under predicates; escapes by "
        "probing around the decoded value in strings and range bounds; escape SEQUENCES (incl. decoded text that looks like an escape again) in "
        "plain, CI, PUSH_LITERAL and squashed-choice contexts judged on the decoded text and on every other reading; CI literals, also mixed with "
        "digits / punctuation inside squashable choices, on ASCII input.",
        "trusted: the set predicates in pv/checks/c12.py; CPython's unicodedata on code points whose category is unchanged since Unicode 3.2 (minus U+0295, U+200C, U+200D); the other Unicode property rules are compared across modes only",
        "DESIGN.md 4/C12",
    ),
    "C08": (
        "metamorphic monitor: text-level rewrites (spans from the meta-grammar oracle) vs the original grammar's result in the same mode",
        "On the bundled real-world grammars every untagged term and every sequence/choice chain is a rewrite site; six rewrite kinds, "
        "singly or 2-4 combined and nested, are spliced into the grammar text, which is then loaded through the whole pipeline; in "
        "each of the 4 modes the result on corpus inputs and their mutants must equal the original grammar's. Hooks count how often "
        "the rewritten site was actually exercised.",
        "NEVER = a literal with U+E000 absent from all inputs; tagged terms are excluded by rule; trees or 'failed' are compared",
        "DESIGN.md 4/C08",
    ),
    "C15": (
        "history monitor against a fresh-process oracle + thread stress with sys.monitoring yield injection against a sequential baseline",
        "Long seeded histories of parser creation (all optimizer settings), code generation and succeeding/failing parses with an "
        "observed call every third operation, compared with the same call in a fresh interpreter process; the same over seeded random "
        "grammars of all profiles (oracle: one fresh process per grammar, every call on a freshly built object); and short multi-threaded "
        "runs (8-16 threads on shared objects, 1 us switch interval, seeded sleep(0) on LINE events inside pest and generated frames, "
        "concurrent builders) compared with the single-threaded baseline. Every parse runs under a logical step budget (20 000 checkpoints + rule "
        "entries; the pool needs < 400), so a history that makes a later call diverge ends as a result that differs from the pristine one. "
        "Focus runs aim all threads at one rule whose parse() was seen (attribute fingerprints before/after a call, after warm-up) to keep "
        "writing to objects shared by all calls - at a random rule when there is none. "
        "The evidence reports switches and yields actually observed.",
        "the fresh-process result is the specification; CPython GIL: byte-code interleavings are sampled, not enumerated",
        "DESIGN.md 4/C15",
    ),
    "C17": (
        "reference-model monitor: json.loads + generator token tree for JSON, an independent recursive-descent evaluator for the calculators",
        "Generated RFC 8259 documents (with the generator's own token tree, validated by json.loads) must be accepted by both bundled "
        "JSON grammars in 4 modes with a mirroring parse tree, and every proper prefix must be rejected; generated arithmetic "
        "expressions are evaluated by the three bundled calculators on pairs from all modes and through their own entry points and "
        "compared with a reference written from the documented precedence table.",
        "json.loads is the JSON reference; abstention guard on huge factorials / exponents; parser modules regenerated into a temp copy",
        "DESIGN.md 4/C17",
    ),
}

PENDING_REASON = "check not built yet in this revision of /verif (runtime monitor planned, see DESIGN.md section 4)"


def build() -> dict:
    with open(os.path.join(VERIF, "properties.jsonl"), encoding="utf-8") as fd:
        ids = [json.loads(line)["id"] for line in fd if line.strip()]
    checks = []
    na = []
    for pid in ids:
        if pid not in CHECKS:
            na.append({"property_id": pid, "reason": PENDING_REASON})
            continue
        technique, text, note, ref = CHECKS[pid]
        checks.append(
            {
                "property_id": pid,
                "quick_cmd": f"./check {pid} --tier quick",
                "thorough_cmd": f"./check {pid} --tier thorough",
                "evidence_file": f"/verif/evidence/{pid}.json",
                "replay_cmd_template": f"./check {pid} --replay {{path}}",
                "engine": "pv",
                "level_claimed": {"category": "exploration", "text": text, "design_ref": ref},
                "level_note": note,
                "technique": technique,
            }
        )
    return {
        "version": 1,
        "setup_cmd": "./check selftest",
        "hooks": {
            "guard": "PYTHON_PEST_VERIF",
            "enable": "no source hooks: all instrumentation is applied from the harness by subclassing / rebinding "
            "(monitored ParserState, Stack, parse_trivia wrappers, sys.monitoring); ./check exports PYTHON_PEST_VERIF=1 "
            "for uniformity but the repository never reads it",
            "baseline_off_cmd": BASELINE_OFF,
            "source_commits": [],
            "add_only": True,
        },
        "engines": [
            {
                "name": "pv",
                "path": "/verif/pv",
                "serves_properties": sorted(CHECKS),
                "kind_free_text": "runtime monitoring: the real code of /repo's working tree is executed under generated / "
                "exhaustive-bounded workloads; oracles are executable reference models, metamorphic relations and state "
                "monitors; sharded over subprocess workers with watchdogs",
            }
        ],
        "checks": checks,
        "not_applicable": na,
        "notes": "Exit codes: 0 held, 1 violated (VIOLATION line + replay file), 2 inconclusive (watchdog, oracle self-test "
        "failure or a deciding monitor that observed too few events). Known findings are in KNOWN_FINDINGS.json.",
    }


def main() -> None:
    m = build()
    with open(os.path.join(VERIF, "MANIFEST.json"), "w", encoding="utf-8") as fd:
        json.dump(m, fd, indent=1)
        fd.write("\n")
    print(f"MANIFEST.json: {len(m['checks'])} checks, {len(m['not_applicable'])} not_applicable")


if __name__ == "__main__":
    main()
