"""Development aid: python -m pv.triage <ID>  -> compact table of the replays written by the last run."""
import glob, json, os, sys, collections
def main():
    pid = sys.argv[1]
    rows = []
    for f in glob.glob(os.path.join(os.environ.get("VERIF_REPLAY_DIR", "/verif/replays"), pid, "*.json")):
        v = json.load(open(f))["violation"]
        rows.append(v)
    rows.sort(key=lambda v: (str(v.get("key")), len(v.get("grammar", "")) + len(v.get("input", ""))))
    for v in rows:
        print("-" * 100)
        print(v.get("judge"), v.get("key"), v.get("label"))
        print(v.get("grammar"))
        print(f"  rule={v.get('rule')!r} input={v.get('input')!r} start={v.get('start')} mode={v.get('mode')}")
        print(f"  expected: {str(v.get('expected'))[:300]}")
        print(f"  observed: {str(v.get('observed'))[:300]}")
        for k in v:
            if k not in ("judge","key","label","grammar","rule","input","start","mode","expected","observed","rules","kind"):
                print(f"  {k}: {str(v[k])[:300]}")
main()
