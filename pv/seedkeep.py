"""Development aid: confirm a seeded change delivered by a sub-agent, run checks on it, and keep it under /verif/seeded/.

  /venv/bin/python -m pv.seedkeep /tmp/wt/C09.out/A [--checks C09,C05] [--name C09-A]
"""
from __future__ import annotations

import argparse
import json
import os
import shutil
import subprocess
import sys


def main() -> int:
    ap = argparse.ArgumentParser()
    ap.add_argument("dir")
    ap.add_argument("--checks", default="")
    ap.add_argument("--name", default="")
    ap.add_argument("--tier", default="quick")
    a = ap.parse_args()
    d = os.path.abspath(a.dir)
    meta = json.load(open(os.path.join(d, "meta.json"), encoding="utf-8"))
    name = a.name or f"{meta.get('property', 'CXX')}-{os.path.basename(d)}"
    cmd = ["/venv/bin/python", "-m", "pv.seedtest", d, "--tier", a.tier]
    if a.checks:
        cmd += ["--checks", a.checks]
    p = subprocess.run(cmd, cwd="/verif", capture_output=True, text=True, check=False, env=dict(os.environ, PYTHONPATH="/verif"))
    out = p.stdout
    try:
        rep = json.loads(out[out.index("{\n \"dir\"") :])
    except ValueError:
        print(out[-2000:], p.stderr[-2000:])
        return 2
    confirmed = bool(rep.get("applies") and rep.get("suite_ok") and rep.get("demo_without_change") == 0 and rep.get("demo_with_change") not in (0, None))
    meta["confirmed_by_me"] = {
        "patch_applies_to_repo_head": rep.get("applies"), "suite_with_change": rep.get("suite"), "demo_exit_without_change": rep.get("demo_without_change"),
        "demo_exit_with_change": rep.get("demo_with_change"), "confirmed": confirmed,
        "how": "pv.seedtest: scratch git worktree of /repo HEAD, git apply patch.diff, demo.py with/without, repository suite in a throw-away copy, checks with VERIF_REPO=<scratch>",
    }
    prev = {}
    dst = os.path.join("/verif/seeded", name)
    if os.path.exists(os.path.join(dst, "meta.json")):
        prev = json.load(open(os.path.join(dst, "meta.json"), encoding="utf-8")).get("checks_result", {})
    prev.update({c: {"exit": r["exit"], "violations": r["violations"], "tier": a.tier, "witness": r["first"][:300]} for c, r in rep["checks"].items()})
    meta["checks_result"] = prev
    meta["caught_by"] = sorted(c for c, r in prev.items() if r["exit"] == 1)
    print(json.dumps({"name": name, "confirmed": confirmed, "caught_by": meta["caught_by"], "checks": {c: (r["exit"], r["violations"]) for c, r in rep["checks"].items()}}, indent=1))
    if not confirmed:
        print("NOT CONFIRMED:", json.dumps(meta["confirmed_by_me"]))
        return 1
    os.makedirs(dst, exist_ok=True)
    for f in ("patch.diff", "demo.py"):
        if os.path.abspath(os.path.join(d, f)) != os.path.abspath(os.path.join(dst, f)):
            shutil.copy(os.path.join(d, f), os.path.join(dst, f))
    with open(os.path.join(dst, "meta.json"), "w", encoding="utf-8") as fd:
        json.dump(meta, fd, indent=1)
        fd.write("\n")
    return 0


if __name__ == "__main__":
    sys.exit(main())
